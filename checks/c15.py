"""C15 - serialization is deterministic and stable under repeated write / load cycles.  Harness: checks/xmlcfg.py (Stability)."""
from checks import c09, docgen, xmlcfg
from checks.xmlcfg import concrete, judge, make  # noqa: F401

META = {
    "level": "model_checking",
    "claim": "Over the same configuration space and template family as C09, with a fixed header date: two writes of one definition are byte-identical, "
             "writing leaves the definition's object graph structurally unchanged, the output parses as well-formed XML whose every element lies in "
             "the definition's XTCE namespace (three namespace conventions), and with G1 = W(D), G2 = W(L(G1)), G3 = W(L(G2)) the second and "
             "third generation are byte-identical.  Exhaustive over the listed configuration variables; content is concrete.",
    "trusted": "lxml / libxml2; the structural snapshot; every configuration re-run in a separate process on the unpatched library (digests of G1, "
               "G2, G3 must agree with the re-hosted run)",
    "bounds": {"quick": {"subjects": c09.META["bounds"]["thorough"]["subjects"], "templates": c09.META["bounds"]["quick"]["templates"]}, "thorough": c09.META["bounds"]["thorough"]},
    "stubs": ["lxml not stubbed", "datetime.now not reached (fixed header date)"],
    "outside_claim": c09.META["outside_claim"] + ["definitions without a header date (the writer stamps the current time)"],
    "assumptions": [],
    "explanation": "configuration-space exhaustive; no packet data involved, the solver only decides the picked configuration",
}


def finding_key(f, req, got):
    k = c09.finding_key(f, req, got)
    return "C15" + k[3:]


def jobs(tier):
    out = []
    for j in c09.jobs("thorough" if tier == "thorough" else "quick"):
        p = dict(j["params"])
        p["stride"] = 1          # no packet data is involved: the whole configuration space is cheap enough for the quick tier
        out.append(dict(j, h="stability", params=p))
    return out


def vacuity_jobs():
    return []
