"""C17 - a loaded definition is a consistent object graph; broken documents fail at load.

Real code executed: from_xtce, _parse_parameter_type_set / _parse_parameter_set / _parse_container_set (duplicate detection, inheritor
back-population), SequenceContainer.from_xml (reference resolution, recursion through base and nested containers),
_get_container_element, Parameter.from_xml.
Configuration variable decided by the executor: WHICH single-point corruption is applied (kind x target, every one explored):
a structural reference renamed (parameterTypeRef, entry parameterRef, entry containerRef, base containerRef), a definition
duplicated unchanged / with a change (type, parameter, container), a referenced definition deleted, a nesting cycle, a base cycle.
"""
import io
import os

import z3

from checks import templates, xmlvar
from spv.harness import Harness, result

TEMPLATES = ["T1", "T2", "T3", "T4", "O|T4", "T5", "T6", "T7", "O|T7", "JPSS", "JPSS_CONTRIVED"]

META = {
    "level": "model_checking",
    "claim": "For each listed document: after loading, every object reachable through entry lists, nested references and lookups IS (identity) the "
             "object the name-keyed dictionaries hold for that name, every parameter's type is the dictionary's object, and each container's "
             "inheritor list is exactly the list of containers naming it as base, each once.  For EVERY single-point corruption of the document "
             "from the listed kinds (all targets enumerated by the executor), loading raises - except an unchanged duplicate container, which the "
             "property allows to load to the same graph.",
    "trusted": "lxml; the corruptions are made with plain lxml on the XML text (checks/xmlvar.py)",
    "bounds": {"quick": {"templates": ["T1", "T3", "T4", "O|T4", "T6", "T7", "JPSS"]}, "thorough": {"templates": TEMPLATES}},
    "stubs": ["none"],
    "outside_claim": ["references made from criteria and length specifications (resolved at decode time; excluded by the property)", "multi-point corruptions",
                      "documents outside the listed set"],
    "assumptions": [],
    "explanation": "exhaustive over the single-point corruptions of the listed documents; no packet data",
}


def graph_problems(d):
    """identity and inheritor consistency of a loaded definition (empty list = consistent)"""
    from space_packet_parser.xtce import containers, parameters
    bad = []
    for name, c in d.containers.items():
        if c.name != name:
            bad.append(f"container key {name} holds {c.name}")
        for e in c.entry_list:
            if isinstance(e, containers.SequenceContainer):
                if d.containers.get(e.name) is not e:
                    bad.append(f"nested container {e.name} in {name} is not the dictionary's object")
            elif isinstance(e, parameters.Parameter):
                if d.parameters.get(e.name) is not e:
                    bad.append(f"parameter {e.name} in {name} is not the dictionary's object")
                if d.parameter_types.get(e.parameter_type.name) is not e.parameter_type:
                    bad.append(f"type of {e.name} is not the dictionary's object")
            else:
                bad.append(f"foreign entry {e!r} in {name}")
        if c.base_container_name is not None and c.base_container_name not in d.containers:
            bad.append(f"base {c.base_container_name} of {name} is undefined")
    for name, c in d.containers.items():
        want = [n for n, x in d.containers.items() if x.base_container_name == name]
        if sorted(c.inheritors) != sorted(want) or len(set(c.inheritors)) != len(c.inheritors):
            bad.append(f"inheritors of {name}: {c.inheritors} != {want}")
    for name, p in d.parameters.items():
        if p.name != name or d.parameter_types.get(p.parameter_type.name) is not p.parameter_type:
            bad.append(f"parameter {name} / its type not the dictionary's object")
    return bad


def load(doc):
    from space_packet_parser.xtce import definitions
    return definitions.XtcePacketDefinition.from_xtce(io.BytesIO(doc))


def try_case(template, k):
    """k == 0: the uncorrupted document; k >= 1: corruption number k-1"""
    xml, _, _ = templates.get(template)
    if k == 0:
        d = load(xml)
        return "loaded", "uncorrupted", graph_problems(d), "uncorrupted"
    kind, desc, build = xmlvar.corruptions(xml)[k - 1]
    doc = build()
    try:
        d = load(doc)
    except Exception as e:    # noqa: BLE001  (RecursionError included)
        return "rejected:" + type(e).__name__, kind, [], desc
    return "loaded", kind, graph_problems(d), desc


class Graph(Harness):
    kind = "graph"

    def run(self, ctx):
        t = self.job["params"]["template"]
        xml, _, _ = templates.get(t)
        n = len(xmlvar.corruptions(xml))
        k = ctx.choose("case", n + 1)
        outcome, kind, problems, desc = try_case(t, k)
        obl = []
        if k == 0:
            obl.append(("uncorrupted document loads", outcome == "loaded"))
            obl.append(("consistent object graph" + (": " + "; ".join(problems[:3]) if problems else ""), not problems))
        elif kind == "duplicate container unchanged":
            # the property allows this to load, but then it must be the same consistent graph
            if outcome == "loaded":
                same = _names(load(xml)) == _names(load(xmlvar.corruptions(xml)[k - 1][2]()))
                obl.append((f"{desc}: loads to a consistent graph", not problems))
                obl.append((f"{desc}: same definition as without the duplicate", same))
        else:
            obl.append((f"{kind} rejected at load ({desc})", outcome.startswith("rejected")))
        return result(outcome.split(":")[0] + "/" + kind, obl, observe={"outcome": outcome.split(":")[0], "problems": len(problems), "cls": "ran"},
                      inputs={"template": t, "case": k, "kind": kind, "desc": desc})


def _names(d):
    return (list(d.parameter_types), list(d.parameters), {k: [e.name for e in v.entry_list] for k, v in d.containers.items()},
            {k: sorted(v.inheritors) for k, v in d.containers.items()})


class Twin(Graph):
    def run(self, ctx):
        r = super().run(ctx)
        r.obligations = [("reachability twin", z3.BoolVal(False))]
        return r


def make(job):
    from spv import bv, lia
    bv.uninstall()
    lia.uninstall()
    return {"graph": Graph, "twin": Twin}[job["h"]](job)


def jobs(tier):
    ts = META["bounds"][tier]["templates"]
    return [{"name": f"graph-{t}", "h": "graph", "params": {"template": t}, "split": 64, "chunk": 40, "max_paths": 100000,
             "must_reach": ["loaded/uncorrupted"]} for t in ts]


def vacuity_jobs():
    return [{"name": "twin", "h": "twin", "params": {"template": "T6"}, "max_paths": 10}]


def concrete(req):
    i = req["input"]
    outcome, kind, problems, desc = try_case(i["template"], i["case"])
    return {"cls": "ran", "outcome": outcome.split(":")[0], "problems": len(problems), "detail": outcome, "problem_list": problems[:3]}


def judge(req, got):
    if got.get("cls") in ("WORKER-ERROR", "WORKER-DIED", "TIMEOUT"):
        return "error", str(got)[:300]
    i = req["input"]
    where = f"template {i['template']}: {i['desc']}"
    if i["case"] == 0:
        if got["outcome"] != "loaded" or got["problems"]:
            return "reproduced", f"{where}: {got['detail']} {got['problem_list']}"
        return "not-reproduced", "consistent"
    if i["kind"] == "duplicate container unchanged":
        if got["outcome"] == "loaded" and got["problems"]:
            return "reproduced", f"{where}: loads to an inconsistent graph {got['problem_list']}"
        return "not-reproduced", "allowed"
    if got["outcome"] == "loaded":
        return "reproduced", f"{where} ({i['kind']}): the document loads instead of being rejected"
    return "not-reproduced", "rejected"


def finding_key(f, req, got):
    i = req.get("input", {})
    return f"C17:{i.get('kind')}"
