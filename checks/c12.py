"""C12 - segmented packets are reassembled per APID exactly once and only when complete.

Real code executed: XtcePacketDefinition.packet_generator(combine_segmented_packets=True, secondary_header_bytes=s)
(the per-APID state machine, continuity test, concatenation), ccsds_generator on the BV back end, RawPacketData accessors,
parse_ccsds_packet with a definition whose root container is empty.
Symbolic: for each of K packets the sequence flags, APID (one of A values), all 14 bits of the sequence count (gaps and
wrap-around are assignments), version/type/secondary-header bits and the data bytes.  s is a picked value 0..7.
"""
import io

import z3

from spv import bv
from spv.harness import Harness, result

XTCE = b"""<?xml version='1.0' encoding='UTF-8'?>
<xtce:SpaceSystem xmlns:xtce="http://www.omg.org/space/xtce" name="Seg">
<xtce:TelemetryMetaData><xtce:ParameterTypeSet>
<xtce:IntegerParameterType name="U8"><xtce:IntegerDataEncoding sizeInBits="8" encoding="unsigned"/></xtce:IntegerParameterType>
</xtce:ParameterTypeSet><xtce:ParameterSet><xtce:Parameter name="A" parameterTypeRef="U8"/></xtce:ParameterSet>
<xtce:ContainerSet><xtce:SequenceContainer name="CCSDSPacket"><xtce:EntryList/></xtce:SequenceContainer></xtce:ContainerSet>
</xtce:TelemetryMetaData></xtce:SpaceSystem>"""

APIDS = [5, 1030, 77]
W_NOSTART = "Continuation packet found without declaring the star"
W_GAP = "Continuation packets for apid"
W_LEN = "Number of bits parsed"

META = {
    "level": "model_checking",
    "claim": "For every history of K packets (quick K=4 over 2 APIDs; thorough K=5 over 2 APIDs and K=4 over 3 APIDs) whose sequence flags, APID "
             "choice, full 14-bit sequence counts and data bytes are symbolic, and every secondary-header length 0..7 (including lengths that exceed a segment's data field), z3 proves on every path of the "
             "real packet_generator(combine_segmented_packets=True) that the yielded raw packets are exactly those of an independent reference "
             "state machine (per APID: FIRST opens, consecutive-mod-16384 CONTINUATIONs extend, LAST closes and emits first packet + later data "
             "fields minus the secondary header; everything else dropped), byte for byte and in order, so that no input packet contributes to two "
             "outputs, with the 'no start' / 'out of sequence' warnings exactly where the reference drops.  In addition an INDUCTIVE STEP "
             "(checks/induct12.py): the body of the packet loop, lifted from the function's AST, is run from an arbitrary segment table (up to 3 stored "
             "segments for each of 2 APIDs) with an arbitrary incoming packet, and z3 proves outputs, warnings and the NEW TABLE equal the reference "
             "transition - which extends the result to histories of any length.  A record-prefix job runs the same histories with skip_header_bytes=3 (arbitrary prefix bytes before every packet).  A two-sources job feeds the SAME definition two streams one after the other (cut at every packet boundary) and proves that an open group of the first never leaks into the second.",
    "trusted": "z3; BV proxies; dict lookup by a symbolic APID = pick of a feasible value; cross-validated on every path against the unpatched "
               "generator; the reference state machine (Appendix A of DESIGN.md) is my reading of the property",
    "bounds": {"quick": {"K": 4, "APIDs": 2, "secondary_header_bytes": "0..7 (longer than the shorter data fields)", "data bytes per packet": "3..6"},
               "thorough": {"K/APIDs": "5/2 and 4/3", "secondary_header_bytes": "0..7 (longer than the shorter data fields)", "data bytes per packet": "3..7"}},
    "stubs": ["warnings.warn recorded (category + message prefix)", "dict[key] with a symbolic APID key: pick"],
    "outside_claim": ["histories longer than K (except through the inductive step)", "more than 3 APIDs"],
    "assumptions": ["packets in the stream are well-formed (length fields concrete and consistent)"],
}


def choose(ctx, name, n):
    return ctx.choose(name, n)


def build_stream(ctx, K, A, skip=0):
    """K packets with symbolic header fields, each preceded by `skip` arbitrary record-prefix bytes; returns (SymBytes stream, [dict per packet])"""
    items, pk = [], []
    for i in range(K):
        items += [z3.BitVec(f"x{i}_{j}", 8) for j in range(skip)]
        dlen = 3 + i
        b0, b1, b2, b3 = (z3.BitVec(f"h{i}_{j}", 8) for j in range(4))
        apid = z3.Concat(z3.Extract(2, 0, b0), b1)                      # 11 bits
        ctx.assume(z3.Or([apid == a for a in APIDS[:A]]))
        flags = z3.Extract(7, 6, b2)
        seq = z3.Concat(z3.Extract(5, 0, b2), b3)                       # 14 bits
        data = [z3.BitVec(f"d{i}_{j}", 8) for j in range(dlen)]
        raw = [b0, b1, b2, b3, (dlen - 1) >> 8, (dlen - 1) & 0xFF] + data
        pk.append({"apid": apid, "flags": flags, "seq": seq, "raw": raw, "start": len(items) - skip})
        items += raw
    return bv.SymBytes(items), pk


def reference(ctx, pk, s):
    """Independent reference state machine, evaluated in the path context (forks only where the symbolic fields still
    leave a choice).  Returns (outputs: list of byte-item lists, warnings: list of kinds)."""
    state = {}          # apid value -> list of packet indices (open group)
    outputs, warns = [], []
    for i, p in enumerate(pk):
        f = p["flags"]
        if ctx.fork(f == 3):                         # UNSEGMENTED: alone, state untouched
            outputs.append(list(p["raw"]))
            warns.append("len")                      # (the check's definition consumes no bits: every output carries the length warning)
            continue
        a = ctx.pick(z3.BV2Int(p["apid"]))
        if ctx.fork(f == 1):                         # FIRST: opens (discarding an unfinished group)
            state[a] = [i]
        elif a not in state:                         # CONTINUATION / LAST with no open group
            warns.append("nostart")
        elif ctx.fork(f == 0):
            state[a].append(i)
        else:                                        # LAST closes the group
            group = state.pop(a) + [i]
            ok = True
            for x, y in zip(group, group[1:]):
                d = z3.ZeroExt(2, pk[y]["seq"]) - z3.ZeroExt(2, pk[x]["seq"])
                if not ctx.fork(z3.Or(d == 1, d == z3.BitVecVal(1 - 16384, 16))):
                    ok = False
                    break
            if ok:
                out = list(pk[group[0]]["raw"])
                for y in group[1:]:
                    out += pk[y]["raw"][6 + s:]
                outputs.append(out)
                warns.append("len")
            else:
                warns.append("gap")
    return outputs, warns


def kind_of(message):
    return "nostart" if message.startswith(W_NOSTART) else "gap" if message.startswith(W_GAP) else "len" if message.startswith(W_LEN) else "?"


def same_warnings(got, want):
    """one warning per dropped group / orphan, in order; the kind is compared only when the text is one of the two known wordings"""
    return len(got) == len(want) and all(g == w or g == "?" for g, w in zip(got, want))


class Segments(Harness):
    kind = "segments"

    def run(self, ctx):
        lib = self.lib
        K, A = self.job["params"]["K"], self.job["params"]["A"]
        s = choose(ctx, "s", 8)
        skip = self.job["params"].get("skip", 0)
        stream, pk = build_stream(ctx, K, A, skip)
        kw = {"skip_header_bytes": skip} if skip else {}
        cut = None
        if self.job["params"].get("two_calls"):
            # the SAME definition object serves two sources one after the other (the first one may end inside a group): an open group of
            # the first source must not leak into the second
            cut = 1 + choose(ctx, "cut", K - 1)
            at = pk[cut]["start"]
            parts = [(bv.SymBytes(stream.items[:at]), pk[:cut]), (bv.SymBytes(stream.items[at:]), pk[cut:])]
        else:
            parts = [(stream, pk)]
        out, want, want_warn, end = [], [], [], "stop"
        for part, ppk in parts:
            gen = self.definition.packet_generator(part, combine_segmented_packets=True, secondary_header_bytes=s, **kw)
            try:
                for p in gen:
                    out.append(p)
                    if len(out) > K + 1:
                        break
            except Exception as e:    # noqa: BLE001 - library outcome
                end = "exc:" + type(e).__name__
                break
            w, ww = reference(ctx, ppk, s)
            want += w
            want_warn += ww
        # the wording of the two warnings is not part of the property: a warning with another text counts as one warning of unknown kind
        got_warn = [kind_of(m) for (cat, m) in ctx.warnings if "Deprecat" not in cat]
        obl = [("no exception", end == "stop"), ("number of outputs", len(out) == len(want)), ("warnings", same_warnings(got_warn, want_warn))]
        got_items = []
        for i, (g, w) in enumerate(zip(out, want)):
            gi = g.raw_data.items if hasattr(g, "raw_data") else None
            got_items.append(gi)
            if gi is None or len(gi) != len(w):
                obl.append((f"output {i} length", False))
                continue
            obl.append((f"output {i} bytes", z3.And([bv.byte_term(x) == bv.byte_term(y) for x, y in zip(gi, w)] + [z3.BoolVal(True)])))
        observe = {"outputs": [bv.SymBytes(g.raw_data.items) for g in out if hasattr(g, "raw_data")], "warnings": got_warn, "end": end, "cls": "ran"}
        spec = {"outputs": [bv.SymBytes(w) for w in want], "warnings": want_warn, "end": "stop"}
        return result(f"{len(want)}out/{len([w for w in want_warn if w != 'len'])}warn", obl, observe=observe, spec=spec, inputs={"stream": stream, "s": s, "K": K, "cut": None if cut is None else pk[cut]["start"], "skip": skip})


class Twin(Segments):
    def run(self, ctx):
        r = super().run(ctx)
        r.obligations = [("reachability twin", z3.BoolVal(False))]
        return r


def make(job):
    if job["h"].startswith("induct12"):
        from checks import induct12
        return induct12.make(job)
    lib = bv.install(128)
    h = {"seg": Segments, "twin": Twin}[job["h"]](job)
    h.lib = lib
    h.definition = lib.definitions.XtcePacketDefinition.from_xtce(io.BytesIO(XTCE))
    return h


def jobs(tier):
    if tier == "quick":
        cfgs = [(4, 2)]
    else:
        cfgs = [(5, 2), (4, 3)]
    from checks import induct12
    return [{"name": f"K{K}-A{A}", "h": "seg", "params": {"K": K, "A": A}, "split": 16, "chunk": 40, "max_paths": 400000,
             "must_reach": ["1out/0warn", "0out/1warn", "2out/0warn"]} for K, A in cfgs] + induct12.jobs(tier) + [
        {"name": "skip-prefix-K3", "h": "seg", "params": {"K": 3 if tier == "quick" else 4, "A": 1 if tier == "quick" else 2, "skip": 3}, "split": 16, "chunk": 40,
         "max_paths": 400000, "must_reach": ["1out/0warn"]},
        {"name": "two-calls-K3", "h": "seg", "params": {"K": 3 if tier == "quick" else 4, "A": 1 if tier == "quick" else 2, "two_calls": True}, "split": 16, "chunk": 40,
         "max_paths": 400000, "must_reach": ["0out/1warn", "1out/0warn"]}]


def vacuity_jobs():
    return [{"name": "twin-K2", "h": "twin", "params": {"K": 2, "A": 1}}]


# ------------------------------------------------------------------------------------------------- concrete side
def concrete(req):
    import warnings
    from space_packet_parser.xtce import definitions
    i = req["input"]
    stream = bytes.fromhex(i["stream"]["hex"])
    d = definitions.XtcePacketDefinition.from_xtce(io.BytesIO(XTCE))
    outs, end = [], "stop"
    with warnings.catch_warnings(record=True) as rec:
        warnings.simplefilter("always")
        cut = i.get("cut")
        try:
            for part in ([stream] if cut is None else [stream[:cut], stream[cut:]]):
                for p in d.packet_generator(part, combine_segmented_packets=True, secondary_header_bytes=i["s"], skip_header_bytes=i.get("skip", 0)):
                    outs.append({"hex": bytes(p.raw_data).hex()})
                    if len(outs) > i["K"] + 1:
                        break
        except Exception as e:   # noqa: BLE001
            end = "exc:" + type(e).__name__
    ws = []
    for w in rec:
        m = str(w.message)
        if "Deprecat" in w.category.__name__:
            continue
        ws.append(kind_of(m))
    return {"cls": "ran", "outputs": outs, "warnings": ws, "end": end}


def judge(req, got):
    """Independent concrete reference: per-APID open group, closed by LAST."""
    if got.get("cls") in ("WORKER-ERROR", "WORKER-DIED", "TIMEOUT"):
        return ("reproduced", "generator did not terminate") if got.get("cls") == "TIMEOUT" else ("error", str(got)[:300])
    i = req["input"]
    stream, s = bytes.fromhex(i["stream"]["hex"]), i["s"]
    pk, o, skip = [], 0, i.get("skip", 0)
    while o + skip + 6 <= len(stream):
        o += skip
        n = 7 + int.from_bytes(stream[o + 4:o + 6], "big")
        pk.append(stream[o:o + n])
        o += n
    state, outs, warns = {}, [], []
    cut, o = i.get("cut"), 0
    for p in pk:
        if cut is not None and o == cut:
            state = {}             # second generator call: nothing of the first source is remembered
        o += len(p) + skip
        apid = ((p[0] & 7) << 8) | p[1]
        flags, seq = p[2] >> 6, ((p[2] & 0x3F) << 8) | p[3]
        if flags == 3:
            outs.append(p)
            warns.append("len")
        elif flags == 1:
            state[apid] = [p]
        elif apid not in state:
            warns.append("nostart")
        elif flags == 0:
            state[apid].append(p)
        else:
            g = state.pop(apid) + [p]
            seqs = [((x[2] & 0x3F) << 8) | x[3] for x in g]
            if all((b - a) % 16384 == 1 for a, b in zip(seqs, seqs[1:])):
                outs.append(g[0] + b"".join(x[6 + s:] for x in g[1:]))
                warns.append("len")
            else:
                warns.append("gap")
    want = [{"hex": x.hex()} for x in outs]
    if got["end"] != "stop":
        return "reproduced", f"stream {stream.hex()} skip_header_bytes={skip} s={s}{'' if cut is None else f' fed as two sources cut at byte {cut}'}: generator ended with {got['end']}"
    if got["outputs"] != want:
        return "reproduced", f"stream {stream.hex()} skip_header_bytes={skip} s={s}{'' if cut is None else f' fed as two sources cut at byte {cut}'}: expected outputs {[x['hex'] for x in want]}, got {[x['hex'] for x in got['outputs']]}"
    if not same_warnings(got["warnings"], warns):
        return "reproduced", f"stream {stream.hex()} skip_header_bytes={skip} s={s}{'' if cut is None else f' fed as two sources cut at byte {cut}'}: expected warnings {warns}, got {got['warnings']}"
    return "not-reproduced", "agrees with the reference state machine"


def finding_key(f, req, got):
    import re
    lab = re.sub(r"\d+", "", f["label"])
    return "C12:" + lab
