"""C02 - stream framing is exact and independent of source kind and chunking.

Real code executed: packets.ccsds_generator (and XtcePacketDefinition.packet_generator(ccsds_headers_only=True)),
_extract_bits, on the LIA/views back end: packet lengths, per-packet prefix, read size and every recv()/read() chunk
size are symbolic integers; stream content is an uninterpreted array of which only the length fields are constrained.
The same module provides the arbitrary-stream harness used by C10 and the re-framing job of C13.
"""
import hashlib
import io
import socket

import z3

from spv import lia
from spv.engine import Cut
from spv.harness import Harness, result

MAXT_REPLAY = 96_000_000

META = {
    "level": "model_checking",
    "claim": "For P packets (quick 1..3, thorough 1..4) whose data-field lengths are symbolic in 1..65536, with a symbolic per-packet prefix "
             "0..2^31 (which drives the cursor past the 20 MB trim threshold), for bytes, file (symbolic read size or default) and socket "
             "sources (symbolic read size or default, every recv() chunk size symbolic), z3 proves on every explored path of the real "
             "ccsds_generator that yield i is exactly the slice (o_i, 6+L_i) of the stream, that nothing else is yielded, that bytes/file "
             "sources then stop and that a socket whose peer stays open blocks instead of yielding. Bounded: paths needing more than R "
             "source reads per packet are cut and counted.  In addition an INDUCTIVE STEP (checks/induct.py): the body of the packet loop, lifted from the "
             "function's AST, is run from an arbitrary loop-head state satisfying a representation invariant and z3 proves that one iteration yields "
             "exactly the next packet and re-establishes the invariant (or stops / blocks when the source is exhausted), and that the real prologue "
             "establishes the invariant - so the result extends to streams of ANY number of packets (still within R reads per packet).",
    "trusted": "z3 (linear integer arithmetic + arrays); the view model of bytes (slicing = offset arithmetic, += of contiguous views); the "
               "file/socket stubs' contracts; cross-validated on every path whose witness total is <= 96 MB against the unpatched generator",
    "bounds": {"quick": {"P": [1, 2, 3], "R (source reads per packet)": 4, "L": "1..65536", "prefix k": "0..2^31", "read size": "-1, default, or 1..2^31-1"},
               "thorough": {"P": "1..3 with R = 6; 4 with R = 4 (bytes, file with symbolic read size)", "R (source reads per packet)": "6 (4 for P = 4)", "L": "1..65536", "prefix k": "0..2^31", "read size": "-1, default, or 1..2^31-1"}},
    "stubs": ["file object: seek(0, END) -> T; read(n) -> min(n, rest) bytes (rest if n < 0); real io.BufferedIOBase subclass",
              "socket: recv(n) -> chunk of symbolic size 1..min(n, rest); blocks once all T bytes are delivered (peer open); real socket.socket subclass",
              "time.time_ns / logging: untouched, no effect on results"],
    "outside_claim": ["more than P packets per run", "more than R source reads per packet (so 1-byte reads are covered only for packets of <= R bytes ... i.e. cut)",
                      "sources other than bytes / BufferedIOBase / socket", "show_progress=True"],
    "assumptions": ["stream cells are bytes (0..255): axiom instantiated per cell read", "a regular file's read(n) returns min(n, rest) bytes"],
}


def filler(n):
    return hashlib.shake_128(b"spv-filler").digest(n) if n else b""


# ------------------------------------------------------------------------------------------------- symbolic side
def make_source(kind, T, R, closed):
    if kind == "file":
        return lia.SymFile(T, R)
    if kind == "socket":
        return lia.SymSocket(T, R, closed)
    return lia.ViewBytes(0, T)


class Framing(Harness):
    """well-formed stream of P packets (C02) -- params: kind, P, R, rmode in {default, sym}, via_def"""
    kind = "framing"

    def soft(self, res):
        s = []
        for n, t in res.inputs.items():
            if n == "k":
                s.append(t.t <= 40)
            elif n.startswith("L"):
                s.append(t.t <= 300)
        return s

    def run(self, ctx):
        p = self.job["params"]
        kind, P, R = p["kind"], p["P"], p["R"]
        packets = self.packets
        k = z3.Int("k")
        ctx.assume(z3.And(k >= 0, k <= 2 ** 31))
        if p.get("k0"):
            ctx.assume(k == 0)
        Ls = [z3.Int(f"L{i}") for i in range(P)]
        offs = []
        o = z3.IntVal(0)
        for i in range(P):
            ctx.assume(z3.And(Ls[i] >= 1, Ls[i] <= 65536))
            o = o + k
            offs.append(o)
            b4, b5 = lia.sel(o + 4), lia.sel(o + 5)
            ctx.assume(b4 * 256 + b5 == Ls[i] - 1)
            o = o + 6 + Ls[i]
        T = z3.simplify(o)
        kwargs = {"skip_header_bytes": lia.LInt(k)}
        r = None
        if kind != "bytes" and p["rmode"] == "sym":
            r = z3.Int("r")
            if kind == "file":
                ctx.assume(z3.Or(r == -1, z3.And(r >= 1, r < 2 ** 31)))
            else:
                ctx.assume(z3.And(r >= 1, r < 2 ** 31))
            kwargs["buffer_read_size_bytes"] = lia.LInt(r)
        src = make_source(kind, T, R, closed=False)
        if p.get("via_def"):
            g = self.definition.packet_generator(src, ccsds_headers_only=True, **kwargs)
        else:
            g = packets.ccsds_generator(src, **kwargs)
        out = []
        end = "stop"
        try:
            for pkt in g:
                out.append(pkt)
                if hasattr(src, "reads"):
                    src.reads = 0
                if hasattr(src, "_reads"):
                    src._reads = 0
                if len(out) > P:
                    end = "extra"
                    break
        except lia.WouldBlock:
            end = "block"
        except Exception as e:     # noqa: BLE001 - library outcome
            end = "exc:" + type(e).__name__
        want_end = "block" if kind == "socket" else "stop"
        obl = [("count", len(out) == P), ("end", end == want_end)]
        for i, pkt in enumerate(out[:P]):
            ok = isinstance(pkt, self.SymRaw)
            obl.append((f"pkt{i} is a RawPacketData", ok))
            if ok:
                obl.append((f"pkt{i} slice", z3.And(pkt.off == offs[i], pkt.length == 6 + Ls[i])))
        inputs = {"k": lia.LInt(k), **{f"L{i}": lia.LInt(Ls[i]) for i in range(P)}}
        # the first four header bytes of every record as the path constrains them (any header values: version, type, flags, APID, sequence)
        for i in range(P):
            inputs[f"hdr{i}"] = [lia.LInt(lia.sel(offs[i] + j)) for j in range(4)]
        if r is not None:
            inputs["r"] = lia.LInt(r)
        if kind == "socket":
            inputs["chunks"] = [lia.LInt(c) for c in src.chunks]
        observe = {"packets": [[lia.LInt(x.off), lia.LInt(x.length)] for x in out if isinstance(x, lia.ViewBytes)], "end": end}
        res = result(f"{end}/{len(out)}", obl, observe=observe, inputs=inputs)
        res.total = T
        return res

    def concretize(self, model, res):
        req = super().concretize(model, res)
        req["input"] = _ev_lia(model, res.inputs)
        req["expect"] = _ev_lia(model, res.observe)
        T = model.eval(res.total, model_completion=True).as_long()
        req["input"]["T"] = T
        if T > MAXT_REPLAY:
            req["skip_validation"] = True
        return req


class Arbitrary(Harness):
    """arbitrary byte stream of symbolic total length (C10) -- params: kind, NP, R, rmode, k"""
    kind = "arbitrary"

    def soft(self, res):
        return [res.inputs["T"].t <= 3000]

    def run(self, ctx):
        p = self.job["params"]
        kind, NP, R = p["kind"], p["NP"], p["R"]
        packets = self.packets
        T = z3.Int("T")
        ctx.assume(z3.And(T >= 0, T <= 2 ** 31))
        kk = p.get("k", 0)
        kwargs = {}
        ksym = None
        if kk == "sym":        # a record prefix of symbolic length (up to 32 MiB: the cursor can pass the 20 MB buffer-trim mark)
            ksym = z3.Int("k")
            ctx.assume(z3.And(ksym >= 0, ksym <= 2 ** 25))
            kk = ksym
            kwargs["skip_header_bytes"] = lia.LInt(ksym)
        elif kk:
            kwargs["skip_header_bytes"] = kk
        r = None
        if kind != "bytes" and p["rmode"] == "sym":
            r = z3.Int("r")
            if kind == "file":
                ctx.assume(z3.Or(r == -1, z3.And(r >= 1, r < 2 ** 31)))
            else:
                ctx.assume(z3.And(r >= 1, r < 2 ** 31))
            kwargs["buffer_read_size_bytes"] = lia.LInt(r)
        src = make_source(kind, T, R, closed=True)
        if p.get("via_def"):
            g = self.definition.packet_generator(src, ccsds_headers_only=True, **kwargs)
        else:
            g = packets.ccsds_generator(src, **kwargs)
        out = []
        end = "stop"
        try:
            for pkt in g:
                out.append(pkt)
                if hasattr(src, "reads"):
                    src.reads = 0
                if hasattr(src, "_reads"):
                    src._reads = 0
                if len(out) > NP:
                    end = "more"
                    break
        except Exception as e:     # noqa: BLE001 - library outcome
            end = "exc:" + type(e).__name__
        obl = []
        o = z3.IntVal(0)
        for i, pkt in enumerate(out):
            o = o + kk
            n = 7 + lia.sel(o + 4) * 256 + lia.sel(o + 5)
            obl.append((f"yield {i} is a complete consecutive packet", z3.And(pkt.off == o, pkt.length == n, o + n <= T)))
            o = o + n
        if end == "stop":
            rem = T - o
            obl.append(("remainder shorter than a packet", z3.Or(rem < kk + 6, rem < kk + 7 + lia.sel(o + kk + 4) * 256 + lia.sel(o + kk + 5))))
        obl.append(("no internal error escapes", not end.startswith("exc")))
        inputs = {"T": lia.LInt(T)}
        if ksym is not None:
            inputs["k"] = lia.LInt(ksym)
        if r is not None:
            inputs["r"] = lia.LInt(r)
        if kind == "socket":
            inputs["chunks"] = [lia.LInt(c) for c in src.chunks]
        observe = {"packets": [[lia.LInt(x.off), lia.LInt(x.length)] for x in out], "end": end}
        res = result(f"{end}/{min(len(out), NP + 1)}", obl, observe=observe, inputs=inputs)
        res.cells = list(ctx.notes.get("cells", {}).values())
        return res

    def concretize(self, model, res):
        req = super().concretize(model, res)
        req["input"] = _ev_lia(model, res.inputs)
        req["expect"] = _ev_lia(model, res.observe)
        cells = {}
        for idx in res.cells:
            i = model.eval(idx, model_completion=True).as_long()
            cells[str(i)] = model.eval(z3.Select(lia.STREAM, idx), model_completion=True).as_long()
        req["input"]["cells"] = cells
        if req["input"]["T"] > MAXT_REPLAY:
            req["skip_validation"] = True
        return req


def _ev_lia(model, x):
    if isinstance(x, lia.LInt):
        return model.eval(x.t, model_completion=True).as_long()
    if isinstance(x, dict):
        return {k: _ev_lia(model, v) for k, v in x.items()}
    if isinstance(x, (list, tuple)):
        return [_ev_lia(model, v) for v in x]
    return x


class ArbTwin(Arbitrary):
    def run(self, ctx):
        r = super().run(ctx)
        r.obligations = [("reachability twin", z3.BoolVal(False))]
        return r


class Twin(Framing):
    def run(self, ctx):
        r = super().run(ctx)
        r.obligations = [("reachability twin", z3.BoolVal(False))]
        return r


MINI_XTCE = b"""<?xml version='1.0' encoding='UTF-8'?>
<xtce:SpaceSystem xmlns:xtce="http://www.omg.org/space/xtce" name="Mini">
<xtce:TelemetryMetaData><xtce:ParameterTypeSet>
<xtce:IntegerParameterType name="U8"><xtce:IntegerDataEncoding sizeInBits="8" encoding="unsigned"/></xtce:IntegerParameterType>
</xtce:ParameterTypeSet><xtce:ParameterSet><xtce:Parameter name="A" parameterTypeRef="U8"/></xtce:ParameterSet>
<xtce:ContainerSet><xtce:SequenceContainer name="CCSDSPacket"><xtce:EntryList><xtce:ParameterRefEntry parameterRef="A"/></xtce:EntryList>
</xtce:SequenceContainer></xtce:ContainerSet></xtce:TelemetryMetaData></xtce:SpaceSystem>"""


def make(job):
    if job["h"].startswith("induct"):
        from checks import induct
        return induct.make(job)
    packets, SymRaw = lia.install()
    h = {"framing": Framing, "arbitrary": Arbitrary, "twin": Twin, "reframe": Framing, "arbitrary-twin": ArbTwin}[job["h"]](job)
    h.packets, h.SymRaw = packets, SymRaw
    if job["params"].get("via_def"):
        from space_packet_parser.xtce import definitions
        h.definition = definitions.XtcePacketDefinition.from_xtce(io.BytesIO(MINI_XTCE))
    return h


def jobs(tier):
    q = tier == "quick"
    R = 4 if q else 6
    out = []
    for P in ([1, 2, 3] if q else [1, 2, 3, 4]):
        for kind in ("bytes", "file", "socket"):
            for rmode in (("default",) if kind == "bytes" else ("default", "sym")):
                # (thorough P = 4 only for the two cheapest source / read-size combinations, with R = 4: the inductive step covers any P)
                if (not q and P <= 3) or P <= 2 or (kind, rmode) in (("bytes", "default"), ("file", "sym")):
                    out.append({"name": f"P{P}-{kind}-{rmode}", "h": "framing", "params": {"kind": kind, "P": P, "R": 4 if P == 4 else R, "rmode": rmode},
                                "must_reach": [f"{'block' if kind == 'socket' else 'stop'}/{P}"], "split": 4, "chunk": 20, "max_paths": 60000})
    from checks import induct
    out += induct.jobs(tier)
    out.append({"name": "P2-file-viadef", "h": "framing", "params": {"kind": "file", "P": 2, "R": R, "rmode": "sym", "via_def": True},
                "must_reach": ["stop/2"], "split": 4, "chunk": 20})
    return out


def reframe_jobs(tier):
    kinds = ["bytes"] if tier == "quick" else ["bytes", "file", "socket"]
    return [{"name": f"reframe-{k}", "h": "reframe", "params": {"kind": k, "P": 1, "R": 4, "rmode": "default", "k0": True},
             "must_reach": [f"{'block' if k == 'socket' else 'stop'}/1"]} for k in kinds] + [
        # the constructed packet behind a record prefix of symbolic length, read from a file in chunks of symbolic size
        {"name": "reframe-file-sym-prefix", "h": "reframe", "params": {"kind": "file", "P": 1, "R": 4, "rmode": "sym"}, "must_reach": ["stop/1"], "split": 4, "chunk": 20}]


def vacuity_jobs():
    return [{"name": "twin-P1-file", "h": "twin", "params": {"kind": "file", "P": 1, "R": 3, "rmode": "sym"}}]


# ------------------------------------------------------------------------------------------------- concrete side
class _Block(Exception):
    pass


class FakeSocket(socket.socket):
    def __init__(self, data, chunks, closed):
        self._d, self._p, self._chunks, self._closed, self._i = data, 0, list(chunks), closed, 0

    def recv(self, n, flags=0):
        rest = len(self._d) - self._p
        if rest <= 0:
            if self._closed:
                return b""
            raise _Block()
        c = self._chunks[self._i] if self._i < len(self._chunks) else min(n, rest)
        self._i += 1
        c = max(1, min(c, n, rest))
        out = self._d[self._p:self._p + c]
        self._p += c
        return out

    def close(self):
        pass

    def __del__(self):
        pass


def build_wellformed(i, P):
    k = i["k"]
    parts, offs = [], []
    pos = 0
    for j in range(P):
        L = i[f"L{j}"]
        pre = filler(k)
        h4 = i.get(f"hdr{j}") or [0x08 + (j & 7), 0x21 + j, 0xC0, j & 0xFF]
        hdr = bytes(int(x) & 0xFF for x in h4) + (L - 1).to_bytes(2, "big")
        body = filler(L)
        parts += [pre, hdr, body]
        offs.append([pos + k, 6 + L])
        pos += k + 6 + L
    return b"".join(parts), offs


def run_real(data, kind, kwargs, chunks, closed, limit, via_def=False):
    from space_packet_parser import packets
    if kind == "file":
        src = io.BytesIO(data)
    elif kind == "socket":
        src = FakeSocket(data, chunks or [], closed)
    else:
        src = data
    if via_def:
        from space_packet_parser.xtce import definitions
        g = definitions.XtcePacketDefinition.from_xtce(io.BytesIO(MINI_XTCE)).packet_generator(src, ccsds_headers_only=True, **kwargs)
    else:
        g = packets.ccsds_generator(src, **kwargs)
    out, end = [], "stop"
    try:
        for pkt in g:
            out.append(bytes(pkt))
            if len(out) > limit:
                end = "more"
                break
    except _Block:
        end = "block"
    except Exception as e:    # noqa: BLE001
        end = "exc:" + type(e).__name__
    return out, end


def locate(data, out, k=0):
    """express the yielded byte strings as [offset, length] slices of the stream when they are consecutive slices"""
    res, pos = [], 0
    for b in out:
        pos += k
        if data[pos:pos + len(b)] == b:
            res.append([pos, len(b)])
        else:
            j = data.find(b) if b else -1
            res.append([j, len(b)])
        pos += len(b)
    return res


def concrete(req):
    i, p = req["input"], req["params"]
    kwargs = {}
    if "r" in i:
        kwargs["buffer_read_size_bytes"] = i["r"]
    if req["kind"] in ("framing", "reframe", "twin"):
        data, _ = build_wellformed(i, p["P"])
        if i["k"]:
            kwargs["skip_header_bytes"] = i["k"]
        out, end = run_real(data, p["kind"], kwargs, i.get("chunks"), False, p["P"], p.get("via_def"))
        if end == "more":
            end = "extra"
        return {"cls": f"{end}/{len(out)}", "packets": locate(data, out, i["k"]), "end": end}
    data = bytearray(filler(i["T"]))
    for idx, v in i["cells"].items():
        if 0 <= int(idx) < len(data):
            data[int(idx)] = v
    data = bytes(data)
    k = i["k"] if p.get("k") == "sym" else p.get("k", 0)
    if k:
        kwargs["skip_header_bytes"] = k
    out, end = run_real(data, p["kind"], kwargs, i.get("chunks"), True, p["NP"], p.get("via_def"))
    return {"cls": f"{end}/{min(len(out), p['NP'] + 1)}", "packets": locate(data, out, k), "end": end}


def judge(req, got):
    """Independent oracle on the concrete stream: walk the length fields."""
    if got.get("cls") in ("WORKER-ERROR", "WORKER-DIED"):
        return "error", str(got)[:300]
    i, p = req["input"], req["params"]
    if got.get("cls") == "TIMEOUT":
        return "reproduced", f"generator did not terminate within the replay timeout on input {str(i)[:200]}"
    if req["kind"] in ("framing", "reframe", "twin"):
        _, offs = build_wellformed(i, p["P"])
        want_end = "block" if p["kind"] == "socket" else "stop"
        if got["packets"] != offs or got["end"] != want_end:
            return "reproduced", f"{p['kind']} source, input {i}: expected slices {offs} then {want_end}, got {got['packets']} then {got['end']}"
        return "not-reproduced", "yielded exactly the packets"
    data = bytearray(filler(i["T"]))
    for idx, v in i["cells"].items():
        if 0 <= int(idx) < len(data):
            data[int(idx)] = v
    k = i["k"] if p.get("k") == "sym" else p.get("k", 0)
    want, o = [], 0
    while True:
        if len(data) - o < k + 6:
            break
        n = 7 + data[o + k + 4] * 256 + data[o + k + 5]
        if o + k + n > len(data):
            break
        want.append([o + k, n])
        o += k + n
    lim = p["NP"] + 1
    if len(want) >= lim:
        want_cut, want_end = want[:lim], "more"
    else:
        want_cut, want_end = want, "stop"
    if got["packets"][:lim] != want_cut or got["end"] != want_end:
        return "reproduced", (f"{p['kind']} source of {i['T']} bytes (read size {i.get('r', 'default')}, record prefix {k}): expected complete packets {want_cut} then "
                              f"{want_end}, got {got['packets'][:lim]} then {got['end']}")
    return "not-reproduced", "yields are exactly the complete packets"


def finding_key(f, req, got):
    import re
    p = req.get("params", {})
    return f"C02:{p.get('kind')}:" + re.sub(r"\d+", "", f["label"])
