"""C18 - the xarray dataset holds every parsed value, per APID, in order, without loss (partially decidable).

Decided by symbolic execution of the library's own Python code:
  dtype      the real _min_dtype_for_encoding with a SYMBOLIC size_in_bits (1..64) and every encoding kind: every value of the encoding's
             range lies inside the chosen dtype's range (numpy's integer ranges are the stub); floats map to a superset format.
  class      the real _get_minimum_numpy_datatype for every parameter-type x encoding x calibrated? x raw? configuration: the dtype kind
             admits the class of the value the real decoder produces for a symbolic packet.
  nostrip    under numpy's documented fixed-width 'S' / 'U' semantics (trailing NULs are not stored) the cell equals the decoded
             bytes / str value, for symbolic field contents.   -> known finding (values ending in NUL), see known_findings.json
  wide       integer encodings wider than 64 bits.             -> known finding (OverflowError; fails loudly)
  accumulate the real create_dataset loop with np / xr replaced by recorders and a definition that yields stub packets with SYMBOLIC
             APIDs in {a, b}: one row per packet of that APID, in stream order across the file list; a field-set mismatch is a ValueError.
Every counterexample is replayed through the real create_dataset with real numpy / xarray on temporary files.
NOT decidable here: numpy's and xarray's own array construction (C code) beyond the stated contracts.
"""
import io
import os
import tempfile

import z3

from spv import bv
from spv.harness import Harness, result

INT_RANGES = {"int8": (-2 ** 7, 2 ** 7 - 1), "int16": (-2 ** 15, 2 ** 15 - 1), "int32": (-2 ** 31, 2 ** 31 - 1), "int64": (-2 ** 63, 2 ** 63 - 1),
              "uint8": (0, 2 ** 8 - 1), "uint16": (0, 2 ** 16 - 1), "uint32": (0, 2 ** 32 - 1), "uint64": (0, 2 ** 64 - 1)}

META = {
    "level": "other",
    "claim": "Partially decided.  z3 proves, on the real dtype-selection functions with a symbolic bit width, that the chosen numpy dtype can hold every value "
             "of every integer / float encoding up to 64 bits; that for each of 36 parameter-type x encoding x calibration x raw/derived configurations "
             "the dtype admits the class of value the real decoder produces; that the per-APID accumulation loop of create_dataset yields one row per "
             "packet in stream order over a list of files and rejects differing field sets; and that string / binary cells are lossless EXCEPT for the "
             "recorded known finding (values ending in NUL are truncated by numpy's S / U dtypes).  Array construction inside numpy / xarray is "
             "covered only through the stated contracts and by replaying counterexamples through the real create_dataset.  END TO END (dataset-e2e): the real "
             "create_dataset opens a SYMBOLIC packet file (flat template TD, APIDs in {5, 300}; 2 packets per file), runs the real generators with "
             "packet_generator_kwargs (record prefix, chunked reads, bad-packet filter), and z3 proves that the packets reaching the accumulation are exactly "
             "those Spec-XTCE decodes and that every column of every per-APID dataset holds exactly those packets' values (raw values on request), in file order.",
    "trusted": "numpy's documented dtype ranges and fixed-width S/U semantics; xarray.Dataset stores the arrays it is given; z3; BV proxies",
    "bounds": {"sizes": "1..64 bits symbolic (65..128 for the known finding)", "files": "<= 2 files x <= 3 packets, APIDs in {a, b}",
               "string / binary fields": "2-byte fields, all contents"},
    "stubs": ["numpy: integer dtype range table; asarray(list, dtype='bytes'/'str') drops trailing NULs (documented fixed-width semantics)",
              "np.asarray / xr.Dataset recorders in the accumulation harness", "open(): real temporary files; the definition's packet_generator returns stub packets"],
    "outside_claim": ["numpy / xarray internals", "definitions whose packets of one APID differ in field set (rejected by design)", "calibrated values (numpy infers float64)"],
    "assumptions": [],
    "explanation": "partially decidable: the dtype logic and the accumulation loop are library Python code and are decided symbolically; the numpy/xarray "
                   "array construction is C code covered by contracts and replay",
}


def run(fn):
    try:
        return fn(), None
    except Exception as e:   # noqa: BLE001
        return None, type(e).__name__


# float encoding spellings the constructor accepts (the two legacy ones with a warning): kind -> (spelling, is IEEE)
FLOAT_KINDS = {3: ("IEEE754", True), 4: ("MILSTD_1750A", False), 5: ("MIL-1750A", False), 6: ("IEEE-754", True), 7: ("IEEE754_1985", True)}


def float_enc(lib, k, s):
    import warnings
    name, ieee = FLOAT_KINDS[k]
    if not ieee and s != 32:
        return None
    with warnings.catch_warnings():
        warnings.simplefilter("ignore")
        return lib.encodings.FloatDataEncoding(s, encoding=name)


class DType(Harness):
    """_min_dtype_for_encoding with symbolic size"""
    kind = "dtype"

    def run(self, ctx):
        from space_packet_parser import xarr
        lib = self.lib
        W = bv.W
        wide = self.job["params"].get("wide", False)
        k = ctx.choose("kind", 8)
        n = z3.BitVec("n", W)
        ctx.assume(z3.And(n >= (65 if wide else 1), n <= (128 if wide else 64)))
        inputs = {"kind": k, "n": bv.SymInt(n), "wide": wide}
        if k < 3:
            enc_name = ("unsigned", "signed", "twosComplement")[k]
            enc = lib.encodings.IntegerDataEncoding(bv.SymInt(n, nb=8, nonneg=True), enc_name)
            dt, exc = run(lambda: xarr._min_dtype_for_encoding(enc))
            obl = [("dtype chosen", exc is None and dt in INT_RANGES)]
            if dt in INT_RANGES:
                lo, hi = INT_RANGES[dt]
                one = z3.BitVecVal(1, W)
                if enc_name == "unsigned":
                    vmin, vmax = z3.BitVecVal(0, W), (one << n) - 1
                else:
                    vmin, vmax = -(one << (n - 1)), (one << (n - 1)) - 1
                obl.append((f"every {enc_name} value fits {dt}", z3.And(vmin >= lo, vmax <= hi)))
            return result(str(dt), obl, observe={"dtype": dt, "cls": "ran"}, inputs=inputs)
        sizes = (16, 32, 64)
        s = sizes[ctx.choose("fsize", 3)]
        enc = float_enc(lib, k, s)
        if enc is None:
            return result("skip", [], observe={"cls": "ran"}, inputs=inputs)
        dt, exc = run(lambda: xarr._min_dtype_for_encoding(enc))
        need = {16: ("float16", "float32", "float64"), 32: ("float32", "float64"), 64: ("float64",)}[s] if FLOAT_KINDS[k][1] else ("float64",)
        # MIL-STD-1750A has a 24-bit mantissa and exponents to +-127: only float64 holds every value exactly
        inputs["fsize"] = s
        return result(str(dt), [(f"float{s} (encoding spelled {FLOAT_KINDS[k][0]}) stored in a superset format, got {dt}", dt in need)],
                      observe={"dtype": dt, "cls": "ran"}, inputs=inputs)


CLASS_CFGS = []
for _pt in ("integer", "float", "enumerated", "boolean", "string", "binary", "time"):
    for _cal in (False, True, "context"):
        for _raw in (False, True):
            CLASS_CFGS.append((_pt, _cal, _raw))


def build_param(lib, pt, cal):
    E, PT, K = lib.encodings, lib.parameter_types, lib.calibrators
    calib = K.PolynomialCalibrator([K.PolynomialCoefficient(1.5, 0), K.PolynomialCoefficient(0.5, 1)]) if cal is True else None
    ctxc = None
    if cal == "context":      # calibrated ONLY through a context calibrator (criteria on the field's own raw value)
        ctxc = [K.ContextCalibrator([lib.comparisons.Comparison("0", "P", operator=">=", use_calibrated_value=False)],
                                    K.PolynomialCalibrator([K.PolynomialCoefficient(0.75, 0), K.PolynomialCoefficient(1.0, 1)]))]
    if pt == "integer":
        return PT.IntegerParameterType("T", E.IntegerDataEncoding(12, "signed", default_calibrator=calib, context_calibrators=ctxc))
    if pt == "float":
        return PT.FloatParameterType("T", E.FloatDataEncoding(32, default_calibrator=calib, context_calibrators=ctxc))
    if pt == "enumerated":
        return PT.EnumeratedParameterType("T", E.IntegerDataEncoding(8, "unsigned", default_calibrator=calib), enumeration={0: "OFF", 1: "ON", 200: "LONGER_LABEL"})
    if pt == "boolean":
        return PT.BooleanParameterType("T", E.IntegerDataEncoding(8, "unsigned", default_calibrator=calib))
    if pt == "string":
        return PT.StringParameterType("T", E.StringDataEncoding(fixed_raw_length=16))
    if pt == "binary":
        return PT.BinaryParameterType("T", E.BinaryDataEncoding(fixed_size_in_bits=16))
    return PT.AbsoluteTimeParameterType("T", E.IntegerDataEncoding(16, "unsigned", default_calibrator=calib, context_calibrators=ctxc), unit="s")


def admits(dtype, value_class):
    """does a numpy dtype of this name store a python value of this class without error or loss of kind?"""
    if dtype is None:
        return True        # numpy infers int64 / float64 / bool / <U / |S from the values themselves
    if dtype.startswith(("int", "uint")):
        return value_class in ("int", "bool")
    if dtype.startswith("float"):
        return value_class in ("float", "int", "bool")
    if dtype == "str":
        return value_class == "str"
    if dtype == "bytes":
        return value_class == "bytes"
    return False


def value_class(v):
    for name, base in (("bool", "BoolParameter"),):
        if type(v).__name__ == base:
            return "bool"
    if isinstance(v, bv.SymInt):
        return "int"
    if isinstance(v, bv.SymReal):
        return "float"
    if isinstance(v, bv.SymStr) or isinstance(v, str):
        return "str"
    if isinstance(v, bv.SymBytes):
        return "bytes"
    return type(v).__name__


class ClassH(Harness):
    """_get_minimum_numpy_datatype vs the class of the value the real decoder produces"""
    kind = "class"

    def run(self, ctx):
        from space_packet_parser import xarr
        lib = self.lib
        ci = ctx.choose("cfg", len(CLASS_CFGS))
        pt_name, cal, raw = CLASS_CFGS[ci]
        if cal and pt_name in ("string", "binary"):
            return result("skip", [], observe={"cls": "ran"}, inputs={"cfg": ci})
        pt = build_param(lib, pt_name, cal)
        if hasattr(pt, "enumeration"):
            pt.enumeration = bv.SymDict(pt.enumeration)
        param = lib.parameters.Parameter("P", pt)
        root = lib.containers.SequenceContainer("CCSDSPacket", [param])
        d = lib.definitions.XtcePacketDefinition([root])
        buf = bv.fresh_bytes("B", 6)
        pkt = lib.packets.CCSDSPacket(raw_data=buf)
        v, exc = run(lambda: param.parse(pkt) or pkt["P"])
        inputs = {"cfg": ci, "buf": buf}
        if exc is not None:
            # unlisted enumeration value etc.: no cell to store
            return result("exc:" + exc, [("decoder error is the documented one", exc == "ValueError")], observe={"cls": "ran"}, inputs=inputs)
        stored = v.raw_value if raw else v
        dt, exc = run(lambda: xarr._get_minimum_numpy_datatype("P", d, use_raw_value=raw))
        vc = value_class(stored)
        obl = [("a dtype is determined", exc is None), (f"{pt_name} calibrated={cal} raw={raw}: dtype {dt} admits a {vc} value", admits(dt, vc))]
        return result(f"{dt}", obl, observe={"dtype": dt, "vclass": vc, "cls": "ran"}, inputs=inputs)


class NoStrip(Harness):
    """numpy fixed-width S / U dtypes do not store trailing NULs: cell == value ?  (lossless only with an object dtype)"""
    kind = "nostrip"

    def run(self, ctx):
        from space_packet_parser import xarr
        lib = self.lib
        which = ctx.choose("which", 2)        # 0 binary, 1 string
        b0, b1 = z3.BitVec("c0", 8), z3.BitVec("c1", 8)
        buf = bv.SymBytes([b0, b1])
        pkt = lib.packets.CCSDSPacket(raw_data=buf)
        pt = build_param(lib, "binary" if which == 0 else "string", False)
        param = lib.parameters.Parameter("P", pt)
        d = lib.definitions.XtcePacketDefinition([lib.containers.SequenceContainer("CCSDSPacket", [param])])
        v = pt.parse_value(pkt)
        dt, exc = run(lambda: xarr._get_minimum_numpy_datatype("P", d, use_raw_value=False))
        items = v.items if which == 0 else v.v[2]
        last = bv.byte_term(items[-1])
        lossless_dtype = dt in ("object", "O")
        label = ("binary" if which == 0 else "string") + " cell equals the decoded value (no character stripping)"
        return result("cell", [(label, z3.Or(z3.BoolVal(lossless_dtype), last != 0))], observe={"cls": "ran"}, inputs={"which": which, "buf": buf})


class Accumulate(Harness):
    """the real create_dataset loop with recorders"""
    kind = "accumulate"

    def run(self, ctx):
        from space_packet_parser import xarr
        lib = self.lib
        W = bv.W
        nfiles = 1 + ctx.choose("nfiles", 2)
        counts = [1 + ctx.choose(f"cnt{f}", 3) for f in range(nfiles)]
        # 0: none; 1: the last packet has an extra field; 2: the last packet has a differently NAMED field (same count);
        # 3: the last packet LACKS a field the others have (a strict subset)
        mm = ctx.choose("mismatch", 4)
        mismatch = mm != 0
        use_raw = ctx.choose("raw", 2) == 1
        A, B = 17, 300
        pk_by_file, allp = [], []
        serial = 0
        for f in range(nfiles):
            lst = []
            for j in range(counts[f]):
                ap = z3.BitVec(f"apid{f}_{j}", W)
                ctx.assume(z3.Or(ap == A, ap == B))
                val = lib.common.IntParameter(1000 + serial, (5000 + serial) if serial else 0)      # the first packet's raw value is 0 (falsy)
                items = {"X": val, "EXTRA": lib.common.IntParameter(7)} if mm == 3 else {"X": val}
                if mismatch and serial == sum(counts) - 1:
                    items = {"X": lib.common.IntParameter(60000, 64000), "EXTRA": lib.common.IntParameter(7)} if mm == 1 else \
                        {"X": lib.common.IntParameter(60000, 64000)} if mm == 3 else {"Y": lib.common.IntParameter(60000, 64000)}
                items = dict({"H": lib.common.IntParameter(3)}, **items)        # a field every packet has (as the header items of a real packet)
                p = StubPacket(items, bv.SymInt(ap, nb=11, nonneg=True))
                lst.append(p)
                allp.append((ap, serial, p))
                serial += 1
            pk_by_file.append(lst)

        class StubDef(lib.definitions.XtcePacketDefinition):
            def __init__(self):
                param = lib.parameters.Parameter("X", lib.parameter_types.IntegerParameterType("T", lib.encodings.IntegerDataEncoding(16, "unsigned")))
                ex = lib.parameters.Parameter("EXTRA", lib.parameter_types.IntegerParameterType("T2", lib.encodings.IntegerDataEncoding(8, "unsigned")))
                yy = lib.parameters.Parameter("Y", lib.parameter_types.IntegerParameterType("T3", lib.encodings.IntegerDataEncoding(16, "unsigned")))
                hh = lib.parameters.Parameter("H", lib.parameter_types.IntegerParameterType("T4", lib.encodings.IntegerDataEncoding(8, "unsigned")))
                super().__init__([lib.containers.SequenceContainer("CCSDSPacket", [hh, param, ex, yy])])
                self.calls = 0

            def packet_generator(self, f, **kw):
                i = self.calls
                self.calls += 1
                return iter(pk_by_file[i])
        recorded = {}

        class NP:
            @staticmethod
            def asarray(lst, dtype=None):
                return ("array", list(lst), dtype)

        class XR:
            @staticmethod
            def Dataset(data_vars=None, **k):   # noqa: N802
                # xarray's contract: variables sharing a dimension must have the same length ("conflicting sizes for dimension")
                if len({len(v[1][1]) for v in data_vars.values() if isinstance(v, tuple) and isinstance(v[1], tuple)}) > 1:
                    raise ValueError("conflicting sizes for dimension")
                return {k2: v for k2, v in data_vars.items()}
        saved = (xarr.np, xarr.xr)
        xarr.np, xarr.xr = NP, XR
        try:
            out, exc = run(lambda: xarr.create_dataset(self.files[:nfiles], StubDef(), use_raw_values=use_raw))
        finally:
            xarr.np, xarr.xr = saved
        obl = []
        # which packets have which apid on this path
        # (the dict lookup by a symbolic APID picked a concrete value for each packet on this path)
        m = ctx.model()
        apv = [m.eval(ap, model_completion=True).as_signed_long() for ap, _, _ in allp]
        for (ap, _, _), a in zip(allp, apv):
            obl.append(("apid determined by the path", ap == a))
        if exc is not None:
            # field-set mismatch: the last packet's key set differs from the first packet of ITS apid - only an error if that apid was seen before
            last_a = apv[-1]
            seen_before = last_a in apv[:-1]
            obl.append(("ValueError only for a field-set mismatch within one APID", exc == "ValueError" and mismatch and seen_before))
            return result("exc:" + exc, obl, observe={"exc": exc, "cls": "ran"}, inputs={"nfiles": nfiles, "counts": counts, "mismatch": mismatch, "mm": mm, "raw": use_raw, "apids": apv})
        if mismatch and apv[-1] in apv[:-1]:
            obl.append(("field-set mismatch within one APID rejected", False))
        want = {}
        for (ap, ser, p), a in zip(allp, apv):
            if mismatch and ser == sum(counts) - 1:
                want.setdefault(a, []).append(64000 if use_raw else 60000)
            else:
                want.setdefault(a, []).append(((5000 + ser) if ser else 0) if use_raw else (1000 + ser))
        got = {}
        ok_shape = isinstance(out, dict)
        if ok_shape:
            for a, ds in out.items():
                a_c = a if isinstance(a, int) else m.eval(a.t, model_completion=True).as_signed_long()
                arr = ds.get("X") or ds.get("Y")
                got[a_c] = [bv.model_int(m, x) if isinstance(x, bv.SymInt) else x for x in (arr[1][1] if arr else [])]
        obl.append((f"rows per APID in stream order: want {want}, got {got}", ok_shape and got == want))
        return result("dataset", obl, observe={"exc": None, "cls": "ran", "row_counts": {str(k): len(v) for k, v in sorted(got.items())}},
                      inputs={"nfiles": nfiles, "counts": counts, "mismatch": mismatch, "mm": mm, "raw": use_raw, "apids": apv})


class _NP:
    @staticmethod
    def asarray(lst, dtype=None):
        return ("array", list(lst), dtype)


class _XR:
    @staticmethod
    def Dataset(data_vars=None, **k):   # noqa: N802
        if len({len(v[1][1]) for v in data_vars.values() if isinstance(v, tuple) and isinstance(v[1], tuple)}) > 1:
            raise ValueError("conflicting sizes for dimension")
        return dict(data_vars)


from checks import e2e as _e2e      # noqa: E402
APIDS_E2E = (5, 300)


def _dataset_kwargs(p, parse_bad):
    kw = dict(_e2e.source_kwargs(dict(p, source="file")))
    kw["parse_bad_pkts"] = parse_bad
    return kw


class DatasetE2E(_e2e.E2E):
    """create_dataset END TO END on the BV back end: the real function opens a SYMBOLIC packet file, runs the real definition-level generator (with
    packet_generator_kwargs: record prefix, read size, bad-packet filter) and accumulates; the packets that reach the accumulation are compared
    with Spec-XTCE (none lost, none invented) and every column of every per-APID dataset is exactly those packets' values (or raw values), in
    file order"""
    kind = "dataset-e2e"

    def build_stream(self, lens):
        stream, pk = super().build_stream(lens)
        ctx = bv._c()
        for q in pk:
            apid = z3.Concat(z3.Extract(2, 0, bv.byte_term(q["items"][0])), bv.byte_term(q["items"][1]))
            ctx.assume(z3.Or([apid == a for a in APIDS_E2E]))
        return stream, pk

    def collect(self, ctx, stream, parse_bad, yield_unrec, n):
        from space_packet_parser import xarr
        p = self.job["params"]
        self.use_raw = bool(ctx.choose("raw", 2))
        seen, defn = [], self.defn
        real_gen = type(defn).packet_generator

        def recording(*a, **k):
            for y in real_gen(defn, *a, **k):
                seen.append(y)
                yield y
        defn.packet_generator = recording
        saved = (xarr.np, xarr.xr)
        had_open = "open" in xarr.__dict__
        xarr.np, xarr.xr = _NP, _XR
        xarr.open = lambda path, mode="rb": bv.SymFileBV(stream)
        try:
            self.out, exc = run(lambda: xarr.create_dataset(["symbolic.bin"], defn, use_raw_values=self.use_raw, **_dataset_kwargs(p, parse_bad)))
        finally:
            xarr.np, xarr.xr = saved
            del defn.packet_generator
            if not had_open:
                del xarr.open
        return seen, ("stop" if exc is None else "exc:" + exc)

    def extra(self, ctx, stream, pk, yields, index_of):
        out = getattr(self, "out", None)
        if out is None:
            return [], {"raw": self.use_raw}, {"dataset": None}
        by_apid = {}
        for y in yields:
            by_apid.setdefault(ctx.pick(y.raw_data.apid.t) if isinstance(y.raw_data.apid, bv.SymInt) else int(y.raw_data.apid), []).append(y)
        obl = [("one dataset per APID that has packets", sorted(ctx.pick(k.t) if isinstance(k, bv.SymInt) else k for k in out) == sorted(by_apid))]
        shape = {}
        for k, ds in out.items():
            a = ctx.pick(k.t) if isinstance(k, bv.SymInt) else k
            pkts = by_apid.get(a, [])
            shape[str(a)] = {}
            names = list(pkts[0].keys()) if pkts else []
            obl.append((f"APID {a}: one variable per field", list(ds.keys()) == names))
            for name in names:
                var = ds.get(name)
                col = var[1][1] if isinstance(var, tuple) and isinstance(var[1], tuple) else None
                ok = col is not None and len(col) == len(pkts)
                obl.append((f"APID {a}.{name}: one row per packet", ok))
                shape[str(a)][name] = len(col) if col is not None else None
                if ok:
                    for j, (cell, y) in enumerate(zip(col, pkts)):
                        want = y[name].raw_value if self.use_raw else y[name]
                        obl.append((f"APID {a}.{name} row {j}: the cell is that packet's {'raw ' if self.use_raw else ''}value", cell is want))
        return obl, {"raw": self.use_raw}, {"dataset": shape}


class StubRaw:
    def __init__(self, apid):
        self.apid = apid


class StubPacket(dict):
    def __init__(self, items, apid):
        super().__init__(items)
        self.raw_data = StubRaw(apid)


class Twin(DType):
    def run(self, ctx):
        r = super().run(ctx)
        r.obligations = [("reachability twin", z3.BoolVal(False))]
        return r


def make(job):
    lib = bv.install(160)
    from space_packet_parser import xarr
    for attr in ("_min_dtype_for_encoding", "_get_minimum_numpy_datatype", "create_dataset"):
        if not hasattr(xarr, attr):
            from spv.engine import EngineLimit
            raise EngineLimit(f"patched name missing after a refactor: xarr.{attr}")
    if job["h"] == "dataset-e2e":
        from checks import templates
        from spv import specxtce
        xml, _, _ = templates.get(job["params"]["template"])
        h = DatasetE2E(job)
        h.lib = lib
        h.defn = bv.symbolize_definition(lib.definitions.XtcePacketDefinition.from_xtce(io.BytesIO(xml)))
        h.spec = specxtce.Spec(xml)
        return h
    h = {"dtype": DType, "class": ClassH, "nostrip": NoStrip, "accumulate": Accumulate, "twin": Twin}[job["h"]](job)
    h.lib = lib
    if job["h"] == "accumulate":
        h.files = []
        for _ in range(2):
            fd, path = tempfile.mkstemp(prefix="spv_c18_")
            os.close(fd)
            h.files.append(path)
        import atexit
        atexit.register(lambda: [os.path.exists(p) and os.unlink(p) for p in h.files])
    return h


def jobs(tier):
    return [{"name": "dtype", "h": "dtype", "params": {}, "split": 8, "must_reach": ["uint8", "int64", "float32"]},
            {"name": "dtype-wide", "h": "dtype", "params": {"wide": True}, "split": 8},
            {"name": "class", "h": "class", "params": {}, "split": 16, "chunk": 20, "must_reach": ["str", "bytes"]},
            {"name": "nostrip", "h": "nostrip", "params": {}, "must_reach": ["cell"]},
            {"name": "accumulate", "h": "accumulate", "params": {}, "split": 32, "chunk": 40, "must_reach": ["dataset", "exc:ValueError"]}] + [
        {"name": f"dataset-e2e-{'-'.join(map(str, lens))}-r{r}-skip{k}", "h": "dataset-e2e", "params": {"template": "TD", "lens": lens, "flagsets": [0, 1], "read": r, "skip": k},
         "split": 16, "chunk": 25, "max_paths": 200000, "must_reach": []}
        for lens, r, k in (([10, 10], 7, 4), ([11, 10], None, 0)) + ((([10, 9], 20, 4), ([10, 10], 16, 10), ([10, 10], 3, 2)) if tier != "quick" else ())]


def vacuity_jobs():
    return [{"name": "twin", "h": "twin", "params": {}}]


# ------------------------------------------------------------------------------------------------- concrete side: the real create_dataset
class _RealLib:
    def __init__(self):
        from space_packet_parser import common, packets
        from space_packet_parser.xtce import calibrators, comparisons, containers, definitions, encodings, parameter_types, parameters
        self.common, self.packets, self.calibrators, self.comparisons, self.containers = common, packets, calibrators, comparisons, containers
        self.definitions, self.encodings, self.parameter_types, self.parameters = definitions, encodings, parameter_types, parameters


def real_cells(pt, user_bytes_list, raw):
    """parse the packets and build the dataset with the real library; -> (parsed values, cells, exception name)"""
    import warnings
    from space_packet_parser import xarr
    lib = _RealLib()
    param = lib.parameters.Parameter("P", pt)
    hdr = lib.parameters.Parameter("H", lib.parameter_types.BinaryParameterType("HT", lib.encodings.BinaryDataEncoding(fixed_size_in_bits=48)))
    d = lib.definitions.XtcePacketDefinition([lib.containers.SequenceContainer("CCSDSPacket", [hdr, param])])
    data = b"".join(bytes(lib.packets.create_ccsds_packet(u, apid=5)) for u in user_bytes_list)
    with tempfile.TemporaryDirectory(prefix="spv_c18_") as tmp:
        f = os.path.join(tmp, "p.bin")
        open(f, "wb").write(data)
        with warnings.catch_warnings():
            warnings.simplefilter("ignore")
            parsed = []
            try:
                for p in d.packet_generator(io.BytesIO(data)):
                    v = p["P"]
                    parsed.append(v.raw_value if raw else v)
            except Exception as e:   # noqa: BLE001
                return None, None, "decode:" + type(e).__name__
            try:
                ds = xarr.create_dataset(f, d, use_raw_values=raw)
                cells = list(ds[5]["P"].values)
            except Exception as e:   # noqa: BLE001
                return parsed, None, type(e).__name__
    return parsed, cells, None


def _plain(x):
    import numpy as np
    if isinstance(x, (bytes, np.bytes_)):
        return {"hex": bytes(x).hex()}
    if isinstance(x, (str, np.str_)):
        return str(x)
    if isinstance(x, (bool, np.bool_)):
        return bool(x)
    if isinstance(x, (int, np.integer)):
        return int(x)
    if isinstance(x, (float, np.floating)):
        return {"f": float(x).hex()}
    return repr(x)


def _dataset_e2e_concrete(req):
    import warnings
    from checks import templates
    from space_packet_parser import xarr
    from space_packet_parser.xtce import definitions
    from spv.obs import enc_concrete
    i, p = req["input"], req["params"]
    xml, _, _ = templates.get(i["template"])
    stream = bytes.fromhex(i["stream"]["hex"])
    box = {}
    with tempfile.TemporaryDirectory(prefix="spv_c18_") as tmp:
        path = os.path.join(tmp, "p.bin")
        open(path, "wb").write(stream)

        def runner(_xml, _stream):
            d = definitions.XtcePacketDefinition.from_xtce(io.BytesIO(_xml))
            seen, real_gen = [], type(d).packet_generator

            def recording(*a, **k):
                for y in real_gen(d, *a, **k):
                    seen.append(y)
                    yield y
            d.packet_generator = recording
            try:
                box["ds"] = xarr.create_dataset([path], d, use_raw_values=i["raw"], **_dataset_kwargs(p, i["parse_bad"]))
                return seen, "stop"
            except Exception as e:    # noqa: BLE001
                return seen, "exc:" + type(e).__name__
        with warnings.catch_warnings():
            warnings.simplefilter("ignore")
            got = _e2e.run_real(xml, stream, i["parse_bad"], False, len(i["lens"]), runner=runner, p=dict(p, template=i["template"]))
    ds = box.get("ds")
    if ds is None:
        got["dataset"] = None
        return got
    got["dataset"] = {str(a): {name: int(ds[a][name].shape[0]) for name in ds[a].data_vars} for a in ds}
    got["rows"] = {str(a): {name: [enc_concrete(v.item() if hasattr(v, "item") else v) for v in ds[a][name].values] for name in ds[a].data_vars} for a in ds}
    return got


def _dataset_e2e_judge(req, got):
    from spv import obs
    verdict, why = _e2e.judge(req, got)
    if verdict != "not-reproduced":
        return verdict, "packets reaching create_dataset: " + why
    i = req["input"]
    if got.get("dataset") is None:
        return ("not-reproduced", "decoder exception allowed by Spec-XTCE") if got["end"] != "stop" else ("reproduced", "create_dataset returned nothing")
    head = f"create_dataset(use_raw_values={i['raw']}, {_dataset_kwargs(req['params'], i['parse_bad'])}) on template {i['template']} file {i['stream']['hex']}"
    by_apid = {}
    for y in got["yields"]:
        if y["kind"] == "packet":
            apid = next(v for n, v, _, _ in y["items"] if n == "APID")
            by_apid.setdefault(str(apid), []).append(y)
    if sorted(got["rows"]) != sorted(by_apid):
        return "reproduced", f"{head}: datasets for APIDs {sorted(got['rows'])}, packets of APIDs {sorted(by_apid)}"
    for a, pkts in by_apid.items():
        for col, (name, val, raw, _cls) in enumerate(pkts[0]["items"]):
            cells = got["rows"][a].get(name)
            want = [(y["items"][col][2] if i["raw"] else y["items"][col][1]) for y in pkts]
            if cells is None or len(cells) != len(want):
                return "reproduced", f"{head}: APID {a} variable {name}: {None if cells is None else len(cells)} rows for {len(want)} packets"
            for j, (c, w) in enumerate(zip(cells, want)):
                if obs.same(w, c, f"APID {a}.{name}[{j}]"):
                    return "reproduced", f"{head}: APID {a} variable {name} row {j}: cell {c} != {'raw ' if i['raw'] else ''}value {w} of that packet"
    return "not-reproduced", "every cell is its packet's value"


def concrete(req):
    if req["kind"] == "dataset-e2e":
        return _dataset_e2e_concrete(req)
    i = req["input"]
    lib = _RealLib()
    k = req["kind"]
    if k in ("dtype", "twin"):
        from space_packet_parser import xarr
        kind, n = i["kind"], i["n"]
        if kind < 3:
            enc = lib.encodings.IntegerDataEncoding(n, ("unsigned", "signed", "twosComplement")[kind])
        else:
            enc = float_enc(lib, kind, i.get("fsize", 32))
        if ("fsize" not in i and kind >= 3) or enc is None:
            return {"cls": "ran"}
        return {"cls": "ran", "dtype": xarr._min_dtype_for_encoding(enc)}
    if k == "class":
        from space_packet_parser import xarr
        pt_name, cal, raw = CLASS_CFGS[i["cfg"]]
        if "buf" not in i:
            return {"cls": "ran"}
        pt = build_param(lib, pt_name, cal)
        param = lib.parameters.Parameter("P", pt)
        d = lib.definitions.XtcePacketDefinition([lib.containers.SequenceContainer("CCSDSPacket", [param])])
        pkt = lib.packets.CCSDSPacket(raw_data=bytes.fromhex(i["buf"]["hex"]))
        try:
            param.parse(pkt)
        except Exception:   # noqa: BLE001
            return {"cls": "ran"}
        v = pkt["P"].raw_value if raw else pkt["P"]
        vc = "bool" if type(v).__name__ == "BoolParameter" else "int" if isinstance(v, int) else "float" if isinstance(v, float) else "str" if isinstance(v, str) else "bytes"
        return {"cls": "ran", "dtype": xarr._get_minimum_numpy_datatype("P", d, use_raw_value=raw), "vclass": vc}
    if k == "nostrip":
        return {"cls": "ran"}
    # accumulate: the real loop with real numpy / xarray on real files holding real packets.  X is calibrated (value = 2.5 + 0.5 * raw) and the
    # packet with serial number s carries raw = s, so the first packet has a FALSY raw value with a non-zero derived value.
    import warnings
    from space_packet_parser import xarr
    K = lib.calibrators
    cal = K.PolynomialCalibrator([K.PolynomialCoefficient(2.5, 0), K.PolynomialCoefficient(0.5, 1)])
    def p16(name):
        return lib.parameters.Parameter(name, lib.parameter_types.IntegerParameterType(name + "_T", lib.encodings.IntegerDataEncoding(16, "unsigned", default_calibrator=cal)))
    hdr = lib.parameters.Parameter("H", lib.parameter_types.BinaryParameterType("HT", lib.encodings.BinaryDataEncoding(fixed_size_in_bits=48)))
    sel = lib.parameters.Parameter("SEL", lib.parameter_types.IntegerParameterType("SEL_T", lib.encodings.IntegerDataEncoding(8, "unsigned")))
    extra = lib.parameters.Parameter("EXTRA", lib.parameter_types.IntegerParameterType("T2", lib.encodings.IntegerDataEncoding(8, "unsigned")))
    root = lib.containers.SequenceContainer("CCSDSPacket", [hdr, sel], abstract=True)
    C = lib.comparisons
    kids = [lib.containers.SequenceContainer("CX", [p16("X")], base_container_name="CCSDSPacket", restriction_criteria=[C.Comparison("0", "SEL", use_calibrated_value=False)]),
            lib.containers.SequenceContainer("CXE", [p16("X"), extra], base_container_name="CCSDSPacket", restriction_criteria=[C.Comparison("1", "SEL", use_calibrated_value=False)]),
            lib.containers.SequenceContainer("CY", [p16("Y")], base_container_name="CCSDSPacket", restriction_criteria=[C.Comparison("2", "SEL", use_calibrated_value=False)])]
    kids[1].entry_list[0] = kids[0].entry_list[0]          # one Parameter object per name
    root.inheritors += ["CX", "CXE", "CY"]
    d = lib.definitions.XtcePacketDefinition([root] + kids)
    serial, files = 0, []
    total = sum(i["counts"])
    with tempfile.TemporaryDirectory(prefix="spv_c18_") as tmp:
        for f in range(i["nfiles"]):
            blob = b""
            for j in range(i["counts"][f]):
                mm = i.get("mm", 1)
                body = (b"\x01" + serial.to_bytes(2, "big") + b"\x07") if mm == 3 else (b"\x00" + serial.to_bytes(2, "big"))
                if i["mismatch"] and serial == total - 1:
                    body = (b"\x01" + (60000).to_bytes(2, "big") + b"\x07") if mm == 1 else (b"\x00" + (60000).to_bytes(2, "big")) if mm == 3 else \
                        (b"\x02" + (60000).to_bytes(2, "big"))
                blob += bytes(lib.packets.create_ccsds_packet(body, apid=i["apids"][serial]))
                serial += 1
            path = os.path.join(tmp, f"f{f}.bin")
            open(path, "wb").write(blob)
            files.append(path)
        with warnings.catch_warnings():
            warnings.simplefilter("ignore")
            try:
                ds = xarr.create_dataset(files, d, use_raw_values=i["raw"])
            except Exception as e:   # noqa: BLE001
                return {"cls": "ran", "exc": type(e).__name__}
            rows = {str(a): [float(v) for v in (ds[a]["X"] if "X" in ds[a] else ds[a]["Y"]).values] for a in sorted(ds)}
    return {"cls": "ran", "exc": None, "row_counts": {a: len(v) for a, v in rows.items()}, "rows_real": rows}


def judge(req, got):
    """replay a counterexample through the real create_dataset with real numpy / xarray"""
    if got.get("cls") in ("WORKER-ERROR", "WORKER-DIED", "TIMEOUT"):
        return "error", str(got)[:300]
    i, k = req["input"], req["kind"]
    if k == "dataset-e2e":
        return _dataset_e2e_judge(req, got)
    lib = _RealLib()
    if k == "dtype":
        kind, n = i["kind"], i["n"]
        if kind >= 3:
            import struct
            if FLOAT_KINDS[kind][1]:
                s_ = i.get("fsize", 32)
                pt = lib.parameter_types.FloatParameterType("T", float_enc(lib, kind, s_))
                fmt = {16: ">e", 32: ">f", 64: ">d"}[s_]
                tests = [struct.pack(fmt, x) for x in ({16: [6e-8, 65504.0], 32: [1e-45, 3.4e38], 64: [5e-324, 1.7e308]}[s_])]
            else:
                pt = lib.parameter_types.FloatParameterType("T", float_enc(lib, kind, 32))
                tests = [bytes([0, 0, 1, 0x80]), bytes([0x7F, 0xFF, 0xFF, 0x7F])]       # M=1, E=-128 ; M=2^23-1, E=127
            parsed, cells, exc = real_cells(pt, tests, False)
            if exc:
                return "reproduced", f"float field: create_dataset raises {exc}"
            if [float(c) for c in cells] != [float(p) for p in parsed]:
                return "reproduced", f"float of {i.get('fsize', 32)} bits with the encoding spelled {FLOAT_KINDS[kind][0]} stored as {got.get('dtype')}: cells {[float(c) for c in cells]} != parsed {[float(p) for p in parsed]}"
            return "not-reproduced", "cells equal the parsed values"
        enc_name = ("unsigned", "signed", "twosComplement")[kind]
        pt = lib.parameter_types.IntegerParameterType("T", lib.encodings.IntegerDataEncoding(n, enc_name))
        nb = (n + 7) // 8
        pad = 8 * nb - n
        worst = [((1 << n) - 1) << pad, (1 << (n - 1)) << pad]            # all ones / sign bit only, left-aligned in the field's bytes
        parsed, cells, exc = real_cells(pt, [w.to_bytes(nb, "big") for w in worst], False)
        if exc:
            return "reproduced", f"{n}-bit {enc_name} integer: create_dataset raises {exc} (parsed values {parsed})"
        if [int(c) for c in cells] != [int(p) for p in parsed]:
            return "reproduced", f"{n}-bit {enc_name} integer: dataset cells {cells} != parsed values {parsed}"
        return "not-reproduced", "cells equal the parsed values"
    if k == "class":
        pt_name, cal, raw = CLASS_CFGS[i["cfg"]]
        pt = build_param(lib, pt_name, cal)
        user = bytes.fromhex(i["buf"]["hex"])
        parsed, cells, exc = real_cells(pt, [user[:6]], raw)
        if exc and exc.startswith("decode:"):
            return "not-reproduced", "decoder error"
        if exc:
            return "reproduced", f"{pt_name} parameter (calibrated={cal}, raw={raw}): create_dataset raises {exc} for parsed value {parsed}"
        if _plain(cells[0]) != _plain(parsed[0]):
            return "reproduced", f"{pt_name} parameter (calibrated={cal}, raw={raw}): cell {_plain(cells[0])} != parsed {_plain(parsed[0])}"
        return "not-reproduced", "cell equals parsed value"
    if k == "nostrip":
        which = i["which"]
        pt = build_param(lib, "binary" if which == 0 else "string", False)
        user = bytes.fromhex(i["buf"]["hex"])
        parsed, cells, exc = real_cells(pt, [user], False)
        if exc:
            return "reproduced", f"{'binary' if which == 0 else 'string'} value {user.hex()}: {exc}"
        if _plain(cells[0]) != _plain(parsed[0]):
            return "reproduced", f"{'binary' if which == 0 else 'string'} field {user.hex()}: cell {_plain(cells[0])} != parsed {_plain(parsed[0])}"
        return "not-reproduced", "cell equals parsed value"
    # accumulate: expected rows of the REAL run (raw = serial, value = 2.5 + 0.5 * raw; the mismatching packet carries raw 60000)
    want = {}
    total = sum(i["counts"])
    for ser, a in enumerate(i["apids"]):
        raw = 60000 if (i["mismatch"] and ser == total - 1) else ser
        want.setdefault(str(a), []).append(float(raw) if i["raw"] else 2.5 + 0.5 * raw)
    bad_expected = i["mismatch"] and i["apids"][-1] in i["apids"][:-1]
    if bad_expected:
        return ("not-reproduced", "rejected") if got.get("exc") == "ValueError" else ("reproduced", f"field-set mismatch within APID {i['apids'][-1]} not rejected: {got}")
    if got.get("exc") or got.get("rows_real") != want:
        return "reproduced", f"files {i['counts']} apids {i['apids']} raw={i['raw']}: rows {got.get('rows_real')} exc {got.get('exc')}; expected {want}"
    return "not-reproduced", "rows per APID in order"


def finding_key(f, req, got):
    i, k = req.get("input", {}), req.get("kind")
    if k == "nostrip":
        return "C18:" + ("binary" if i.get("which") == 0 else "string") + "-value-ending-in-NUL-truncated"
    if k == "dtype" and i.get("wide"):
        return "C18:integer-wider-than-64-bits"
    if k == "dtype" and i.get("kind") == 4:
        return "C18:mil1750a-stored-as-float32"
    if k == "class":
        pt_name, cal, raw = CLASS_CFGS[i.get("cfg", 0)]
        return f"C18:dtype-for-{pt_name}-{'raw' if raw else 'derived'}"
    return f"C18:{k}:{f['label'][:50]}"
