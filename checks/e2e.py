"""End-to-end differential harness shared by C01, C05, C07, C11, C14:
the real XtcePacketDefinition.packet_generator on a symbolic stream versus Spec-XTCE (spv/specxtce.py).

Real code executed: the loader (from_xtce and every from_xml it needs), packet_generator, ccsds_generator, parse_ccsds_packet,
SequenceContainer.parse, Parameter.parse, every ParameterType/DataEncoding.parse_value the template uses, calibrators,
criteria, CCSDSPacket.header / user_data.
Symbolic: every bit of every packet except the two length bytes; the generator options parse_bad_pkts and
yield_unrecognized_packet_errors (a picked configuration variable).
"""
import io
import struct

import z3

from checks import templates
from spv import bv, obs, specxtce
from spv.engine import Ctx, Cut
from spv.harness import Harness, result

LEN_WARN = "Number of bits parsed"
CLASS_OF = {"int": "IntParameter", "float": "FloatParameter", "bool": "BoolParameter", "bytes": "BinaryParameter", "str": "StrParameter"}
ERR_KINDS = ("ValueError", "CalibrationError", "ComparisonError")


def norm_codec(c):
    return c.upper().replace("-", "").replace("_", "")


def close(a, b):
    tol = z3.RealVal("1/1000000000")
    absb = z3.If(b >= 0, b, -b)
    d = a - b
    return z3.And(d <= tol * (1 + absb), -d <= tol * (1 + absb))


def same(iv, sv):
    """z3 formula (or python bool): implementation value == specified value, including the value class"""
    if sv.kind in ("int", "bool"):
        if not isinstance(iv, bv.SymInt):
            return False
        return iv.t == sv.t
    if sv.kind == "float":
        if not isinstance(iv, bv.SymReal):
            return False
        if z3.eq(z3.simplify(iv.t), z3.simplify(sv.t)):
            return True
        return close(iv.t, sv.t)
    if sv.kind == "bytes":
        if not isinstance(iv, bv.SymBytes) or len(iv.items) != len(sv.t):
            return False
        return z3.And([bv.byte_term(a) == b for a, b in zip(iv.items, sv.t)] + [z3.BoolVal(True)])
    if sv.kind == "str":
        if not isinstance(iv, bv.SymStr):
            return False
        if sv.t[0] == "label":
            return iv.is_concrete() and iv.v == sv.t[1]
        v = iv.v
        if not (isinstance(v, tuple) and v[0] == "decode" and norm_codec(v[1]) == norm_codec(sv.t[1]) and len(v[2]) == len(sv.t[2])):
            return False
        return z3.And([bv.byte_term(a) == b for a, b in zip(v[2], sv.t[2])] + [z3.BoolVal(True)])
    return False


def val_to_proxy(sv):
    """Spec value -> proxy understood by obs.ev"""
    if sv is None:
        return None
    if sv.kind in ("int", "bool"):
        return bv.SymInt(sv.t)
    if sv.kind == "float":
        return bv.SymReal(sv.t)
    if sv.kind == "bytes":
        return bv.SymBytes(sv.t)
    if sv.t[0] == "label":
        return sv.t[1]
    return bv.SymStr(("decode", sv.t[1], list(sv.t[2])))


def impl_items(pkt):
    out = []
    for n, v in pkt.items():
        out.append([n, v, getattr(v, "raw_value", None), type(v).__name__])
    return out


def spec_items(st):
    out = []
    for n in st["order"]:
        sv = st["items"][n]
        if sv is None:
            out.append([n, None, None, "IntParameter"])
        else:
            out.append([n, val_to_proxy(sv), val_to_proxy(sv.raw), CLASS_OF[sv.kind]])
    return out


from spv.harness import refine_model  # noqa: E402,F401


class E2E(Harness):
    kind = "e2e"

    def build_stream(self, lens):
        items, pk = [], []
        skip = self.job["params"].get("skip", 0)
        for i, Lb in enumerate(lens):
            items += [z3.BitVec(f"x{i}_{j}", 8) for j in range(skip)]          # record prefix (skip_header_bytes), arbitrary bytes
            bs = [z3.BitVec(f"p{i}_{j}", 8) for j in range(Lb)]
            bs[4] = (Lb - 7) >> 8
            bs[5] = (Lb - 7) & 0xFF
            word = z3.Concat(*[bv.byte_term(b) for b in bs])
            pk.append({"items": bs, "word": word, "len": Lb, "start": len(items)})
            items += bs
        return bv.SymBytes(items), pk

    def collect(self, ctx, stream, parse_bad, yield_unrec, n):
        """the items the library delivers for the stream (overridden by harnesses that observe them through another entry point)"""
        p = self.job["params"]
        if p.get("via") in ("direct", "direct-twice"):
            # the public parse_ccsds_packet called directly on each framed packet (no generator): every packet parsed or its error raised
            return self.collect_direct(ctx, stream)
        kw = {"root_container_name": templates.root_of(p["template"])} if p.get("root_mode") == "gen" else {}
        kw.update(source_kwargs(p))
        src = bv.SymFileBV(stream) if p.get("source") == "file" else stream
        gen = self.defn.packet_generator(src, parse_bad_pkts=parse_bad, yield_unrecognized_packet_errors=yield_unrec, **kw)
        yields, end = [], "stop"
        try:
            for y in gen:
                yields.append(y)
                if len(yields) > n + 1:
                    end = "extra"
                    break
        except Exception as e:   # noqa: BLE001 - library outcome
            end = "exc:" + type(e).__name__
        return yields, end

    def collect_direct(self, ctx, stream):
        lib, p = self.lib, self.job["params"]
        kw = {"root_container_name": templates.root_of(p["template"])} if p.get("root_mode") == "gen" else {}
        yields, end, o = [], "stop", 0
        for n in p["lens"]:
            raw = lib.RawPacketData(bv.SymBytes(stream.items[o:o + n]))
            o += n
            if p.get("via") == "direct-twice":
                # the SAME framed packet object is wrapped and parsed a first time (result discarded: "try one definition, fall back to another");
                # the second parse must start from a fresh cursor
                try:
                    self.defn2.parse_ccsds_packet(lib.packets.CCSDSPacket(raw_data=raw), **kw)
                except Exception:   # noqa: BLE001,S110 - outcome of the discarded first parse
                    pass
            try:
                yields.append(self.defn.parse_ccsds_packet(lib.packets.CCSDSPacket(raw_data=raw), **kw))
            except Exception as e:   # noqa: BLE001 - library outcome
                if hasattr(e, "partial_data"):        # the "unrecognized" error object (identified by what it carries, not by its class name)
                    yields.append(e)
                    continue
                end = "exc:" + type(e).__name__
                break
        return yields, end

    def extra(self, ctx, stream, pk, yields, index_of):
        """-> (more obligations, more inputs, more observations)"""
        return [], {}, {}

    def run(self, ctx):
        p = self.job["params"]
        lens = p["lens"]
        flags = ctx.choose("flags", len(p.get("flagsets", [0, 1, 2, 3])))
        flags = p.get("flagsets", [0, 1, 2, 3])[flags]
        parse_bad, yield_unrec = bool(flags & 1), bool(flags & 2)
        if p.get("via") in ("direct", "direct-twice"):
            parse_bad, yield_unrec = True, True        # a direct call returns every parsed packet and raises for an unrecognized one
        stream, pk = self.build_stream(lens)
        yields, end = self.collect(ctx, stream, parse_bad, yield_unrec, len(lens))
        # the property speaks of "a length-mismatch warning", not of its wording: every warning raised while the stream is parsed counts
        # (deprecation notices excepted), so rewording the message is not reported as a violation
        n_warn = sum(1 for (cat, _) in ctx.warnings if "Deprecat" not in cat)

        # ---- which input packet does each yield belong to (by identity of its first byte term)
        def index_of(y):
            pkt = y.partial_data if isinstance(y, Exception) else y
            raw = getattr(pkt, "raw_data", None)
            if raw is None or not len(raw.items):
                return None
            first = raw.items[0]
            for i, q in enumerate(pk):
                a = q["items"][0]
                if first is a or (not isinstance(first, int) and not isinstance(a, int) and z3.eq(first, a)):
                    if len(raw.items) == q["len"]:
                        return i
            return None
        idx = [index_of(y) for y in yields]

        obl = []
        obs_y, spec_y = [], []
        k = 0
        spec_end = "stop"
        exp_warn = 0
        warn_exact = True
        for i, q in enumerate(pk):
            try:
                st = self.spec.parse(q["word"], q["len"])
                skind = "ok"
            except specxtce.Unrecognized as u:
                st, skind = u.st, "unrec"
            except specxtce.SpecError as e:
                st, skind = e.st, e.kind
            if skind in ("unspecified-operand", "ref-missing", "non-numeric-compare", "no-encoding", "nesting-too-deep", "overread-inner"):
                raise Cut(f"spec makes no statement: {skind}")
            mine = yields[k] if k < len(yields) and idx[k] == i else None
            died_here = (k == len(yields)) and end.startswith("exc")
            if skind == "ok":
                clean = st["pos"] == 8 * q["len"]
                if not clean:
                    exp_warn += 1
                expect_yield = clean or parse_bad
                if expect_yield:
                    ok = mine is not None and not isinstance(mine, Exception)
                    obl.append((f"pkt{i}: defined packet is yielded", ok))
                    spec_y.append({"i": i, "kind": "packet", "items": spec_items(st), "pos": st["pos"]})
                    if ok:
                        self.compare_packet(i, mine, st, obl)
                        k += 1
                    elif died_here:
                        break
                else:
                    obl.append((f"pkt{i}: length-mismatched packet withheld", mine is None))
                    spec_y.append({"i": i, "kind": "withheld"})
            elif skind == "unrec":
                if yield_unrec:
                    ok = mine is not None and isinstance(mine, Exception) and hasattr(mine, "partial_data")
                    obl.append((f"pkt{i}: unrecognized packet reported in position", ok))
                    spec_y.append({"i": i, "kind": "error", "items": spec_items(st)})
                    if ok:
                        self.compare_partial(i, mine, st, obl)
                        k += 1
                    elif died_here:
                        break
                else:
                    obl.append((f"pkt{i}: unrecognized packet skipped", mine is None))
                    spec_y.append({"i": i, "kind": "skipped"})
            elif skind == "unspecified":
                # the document asks for something the properties do not specify (no terminator in the buffer, a size tag that is not whole
                # bytes, no matching lookup entry, a non-integral adjusted size): the library documents an error, any outcome is accepted
                warn_exact = False
                spec_y.append({"i": i, "kind": "any"})
                if mine is not None:
                    k += 1
                elif died_here:
                    spec_end = "exc-allowed"
                    break
            elif skind == "overread":
                # allowed: exception, warning-flagged yield, withheld, reported/skipped as unrecognized; never clean
                warn_exact = False
                spec_y.append({"i": i, "kind": "not-clean"})
                if mine is not None:
                    if isinstance(mine, Exception):
                        obl.append((f"pkt{i}: over-read not delivered clean", True))
                    else:
                        pos = mine.raw_data.pos
                        post = pos.t if isinstance(pos, bv.SymInt) else z3.BitVecVal(pos, bv.W)
                        obl.append((f"pkt{i}: over-read / negative width never delivered as clean", post != 8 * q["len"]))
                    k += 1
                elif died_here:
                    spec_end = "exc-allowed"
                    break
            else:   # the document demands an error for this packet (unlisted enumeration value, calibration outside range, ...)
                spec_y.append({"i": i, "kind": "raises", "error": skind})
                obl.append((f"pkt{i}: {skind} expected from the decoder", died_here))
                spec_end = "exc"
                break
        else:
            obl.append(("nothing else is yielded", k == len(yields)))
            obl.append(("generator ends normally", end == "stop"))
        if spec_end == "exc":
            obl.append(("nothing yielded after the failing packet", k == len(yields)))
        if warn_exact and spec_end == "stop" and p.get("via") not in ("direct", "direct-twice"):        # (the length warning is the generator's)
            obl.append(("one length warning per mismatched packet", n_warn == exp_warn))
        for y, i in zip(yields, idx):
            if isinstance(y, Exception):
                pd = getattr(y, "partial_data", None)
                obs_y.append({"i": i, "kind": "error", "items": impl_items(pd) if pd is not None else None, "etype": type(y).__name__})
            else:
                obs_y.append({"i": i, "kind": "packet", "items": impl_items(y), "pos": y.raw_data.pos, "header": list(y.header.keys()),
                              "user_data": list(y.user_data.keys())})
        observe = {"yields": obs_y, "end": end, "warnings": n_warn, "cls": "ran"}
        spec = {"yields": spec_y, "end": spec_end}
        cls = ",".join(y["kind"] for y in spec_y) + ("|" + spec_end if spec_end != "stop" else "")
        self._spec_end = spec_end
        xo, xi, xobs = self.extra(ctx, stream, pk, yields, index_of)
        obl += xo
        observe.update(xobs)
        res = result(cls, obl, observe=observe, spec=spec, inputs=dict({"stream": stream, "parse_bad": parse_bad, "yield_unrec": yield_unrec,
                                                                         "template": p["template"], "lens": list(lens)}, **xi))
        return res

    def compare_packet(self, i, pkt, st, obl):
        names = list(pkt.keys())
        obl.append((f"pkt{i}: parameter names in order", names == st["order"]))
        if names != st["order"]:
            return
        for n in st["order"]:
            sv = st["items"][n]
            iv = pkt[n]
            if sv is None:
                obl.append((f"pkt{i}.{n}: class", type(iv).__name__ == "IntParameter"))
                continue
            obl.append((f"pkt{i}.{n}: value class", type(iv).__name__ == CLASS_OF[sv.kind]))
            obl.append((f"pkt{i}.{n}: value", same(iv, sv)))
            rv = getattr(iv, "raw_value", None)
            obl.append((f"pkt{i}.{n}: raw value", same(rv, sv.raw)))
        pos = pkt.raw_data.pos
        obl.append((f"pkt{i}: cursor is the sum of the widths", (pos.t == st["pos"]) if isinstance(pos, bv.SymInt) else pos == st["pos"]))
        obl.append((f"pkt{i}: header view is the first seven items", list(pkt.header.keys()) == st["order"][:7]))
        obl.append((f"pkt{i}: user-data view is the rest", list(pkt.user_data.keys()) == st["order"][7:]))

    def compare_partial(self, i, err, st, obl):
        pd = getattr(err, "partial_data", None)
        ok = pd is not None
        obl.append((f"pkt{i}: error carries partial data", ok))
        if not ok:
            return
        names = list(pd.keys())
        obl.append((f"pkt{i}: partial data names", names == st["order"]))
        if names != st["order"]:
            return
        for n in st["order"]:
            sv = st["items"][n]
            if sv is None:
                continue
            obl.append((f"pkt{i}.{n}: partial value", same(pd[n], sv)))


def _vars(t):
    out, todo = [], [t]
    while todo:
        x = todo.pop()
        if z3.is_const(x) and x.decl().kind() == z3.Z3_OP_UNINTERPRETED:
            out.append(x)
        else:
            todo.extend(x.children())
    return out


def _undecodable(x):
    if isinstance(x, dict):
        if "decode" in x:
            try:
                bytes.fromhex(x["hex"]).decode(x["decode"])
                return False
            except (UnicodeDecodeError, LookupError):
                return True
        return any(_undecodable(v) for v in x.values())
    if isinstance(x, list):
        return any(_undecodable(v) for v in x)
    return False


class Twin(E2E):
    def run(self, ctx):
        r = super().run(ctx)
        r.obligations = [("reachability twin", z3.BoolVal(False))]
        return r


def make(job):
    p = job["params"]
    xml, clean, _ = templates.get(p["template"])
    width = max(128, 8 * max(p["lens"]) + 64)
    lib = bv.install(width)
    h = (Twin if job["h"] == "twin" else E2E)(job)
    h.lib = lib
    h.defn = bv.symbolize_definition(load_defn(lib.definitions, xml, p))
    if p.get("via") == "direct-twice":
        h.defn2 = bv.symbolize_definition(load_defn(lib.definitions, xml, p))
    h.spec = specxtce.Spec(xml, root=templates.root_of(p["template"]))
    return h


def source_kwargs(p):
    """non-default framing options of a job: record prefix length and, for a file source, the read size"""
    kw = {}
    if p.get("skip"):
        kw["skip_header_bytes"] = p["skip"]
    if p.get("source") == "file" and p.get("read") is not None:
        kw["buffer_read_size_bytes"] = p["read"]
    return kw


def load_defn(definitions, xml, p):
    """from_xtce with the root container named at load time ("load") or left to the generator call ("gen")"""
    if templates.root_of(p["template"]) != "CCSDSPacket" and p.get("root_mode") != "gen":
        return definitions.XtcePacketDefinition.from_xtce(io.BytesIO(xml), root_container_name=templates.root_of(p["template"]))
    return definitions.XtcePacketDefinition.from_xtce(io.BytesIO(xml))


# ------------------------------------------------------------------------------------------------- concrete side
def run_real(xml, stream, parse_bad, yield_unrec, limit, runner=None, p=None):
    """runner(xml, stream) -> (items, end): observe the items through another entry point than the definition's generator"""
    import warnings
    from space_packet_parser.xtce import definitions
    from spv.obs import enc_concrete
    p = p or {"template": ""}
    d = load_defn(definitions, xml, p)
    kw = {"root_container_name": templates.root_of(p["template"])} if p.get("root_mode") == "gen" else {}
    from spv import structural
    snap0 = structural.public_state(d)
    # input packets (for index mapping)
    pk, o, skip = [], 0, p.get("skip", 0)
    while o + skip + 6 <= len(stream):
        o += skip
        n = 7 + int.from_bytes(stream[o + 4:o + 6], "big")
        pk.append(stream[o:o + n])
        o += n
    ys, end = [], "stop"
    kw.update(source_kwargs(p))
    src = io.BytesIO(stream) if p.get("source") == "file" else stream

    def items_of(pkt):
        out = []
        for n, v in pkt.items():
            if isinstance(v, bool) or type(v).__name__ == "BoolParameter":
                val = int(v)
            elif isinstance(v, int):
                val = int(v)
            elif isinstance(v, float):
                val = float(v)
            elif isinstance(v, str):
                val = str(v)
            else:
                val = bytes(v)
            out.append([n, enc_concrete(val), enc_concrete(v.raw_value), type(v).__name__])
        return out
    with warnings.catch_warnings(record=True) as rec:
        warnings.simplefilter("always")
        try:
            if runner is not None:
                ys, end = runner(xml, stream)
            elif p.get("via") in ("direct", "direct-twice"):
                from space_packet_parser import packets as _P
                for raw in pk:
                    rawobj = _P.RawPacketData(raw)
                    if p.get("via") == "direct-twice":
                        try:
                            load_defn(definitions, xml, p).parse_ccsds_packet(_P.CCSDSPacket(raw_data=rawobj), **kw)
                        except Exception:   # noqa: BLE001,S110
                            pass
                    try:
                        ys.append(d.parse_ccsds_packet(_P.CCSDSPacket(raw_data=rawobj), **kw))
                    except Exception as e:   # noqa: BLE001
                        if not hasattr(e, "partial_data"):
                            raise
                        ys.append(e)
            else:
                for y in d.packet_generator(src, parse_bad_pkts=parse_bad, yield_unrecognized_packet_errors=yield_unrec, **kw):
                    ys.append(y)
                    if len(ys) > limit + 1:
                        end = "extra"
                        break
        except Exception as e:   # noqa: BLE001
            end = "exc:" + type(e).__name__
    out, cur = [], 0
    for y in ys:
        pkt = y.partial_data if isinstance(y, Exception) else y
        raw = bytes(pkt.raw_data) if pkt is not None else None
        i = None
        for j in range(len(pk)):
            if pk[j] == raw:
                i = j
                break
        if isinstance(y, Exception):
            out.append({"i": i, "kind": "error", "items": items_of(pkt) if pkt is not None else None, "etype": type(y).__name__})
        else:
            out.append({"i": i, "kind": "packet", "items": items_of(y), "pos": y.raw_data.pos, "header": list(y.header.keys()),
                        "user_data": list(y.user_data.keys())})
    nw = sum(1 for w in rec if "Deprecat" not in w.category.__name__)
    return {"cls": "ran", "yields": out, "end": end, "warnings": nw, "definition_changed": structural.public_state(d) != snap0}


def concrete(req):
    i = req["input"]
    xml, _, _ = templates.get(i["template"])
    return run_real(xml, bytes.fromhex(i["stream"]["hex"]), i["parse_bad"], i["yield_unrec"], len(i["lens"]), p=dict(req.get("params") or {}, template=i["template"]))


def _item_diff(exp, got, where):
    if exp is None:
        return None
    if got is None or len(exp) != len(got):
        return f"{where}: expected items {[e[0] for e in exp]}, got {None if got is None else [g[0] for g in got]}"
    for e, g in zip(exp, got):
        if e[0] != g[0]:
            return f"{where}: expected parameter {e[0]}, got {g[0]}"
        if e[1] is None and e[2] is None:
            continue
        if e[3] != g[3]:
            return f"{where}.{e[0]}: expected class {e[3]}, got {g[3]}"
        d = obs.same(e[1], g[1], f"{where}.{e[0]}.value") or obs.same(e[2], g[2], f"{where}.{e[0]}.raw_value")
        if d:
            return d
    return None


def judge(req, got):
    """Compare the real run with the Spec-XTCE expectation evaluated on the concrete input."""
    if got.get("cls") in ("WORKER-ERROR", "WORKER-DIED"):
        return "error", str(got)[:300]
    if got.get("cls") == "TIMEOUT":
        return "reproduced", "generator did not terminate"
    spec = req["spec"]
    inp = req["input"]
    if got.get("definition_changed") and req.get("check_definition_unchanged"):
        return "reproduced", f"parsing the stream {inp['stream']['hex']} (template {inp['template']}) modified the definition (its XML or a public attribute)"
    via = (req.get("params") or {})
    via = (" (parse_ccsds_packet called directly)" if via.get("via") == "direct" else " (parse_ccsds_packet called directly, second parse of the same framed packet object)" if via.get("via") == "direct-twice" else "") + (" (root container named in the generator call)" if via.get("root_mode") == "gen" else "") + \
        (f" (file source, buffer_read_size_bytes={via.get('read')})" if via.get("source") == "file" else "") + (f" (skip_header_bytes={via.get('skip')})" if via.get("skip") else "")
    head = f"template {inp['template']}{via} stream {inp['stream']['hex']} parse_bad_pkts={inp['parse_bad']} yield_unrecognized={inp['yield_unrec']}"
    gy = list(got["yields"])
    k = 0
    for sy in spec["yields"]:
        i = sy["i"]
        mine = gy[k] if k < len(gy) and gy[k]["i"] == i else None
        died = k == len(gy) and got["end"].startswith("exc")
        kind = sy["kind"]
        if kind == "packet":
            if mine is None or mine["kind"] != "packet":
                return "reproduced", f"{head}: packet {i} should be yielded with {[e[0] for e in sy['items']]}; got {mine} (end {got['end']})"
            d = _item_diff(sy["items"], mine["items"], f"packet {i}")
            if d:
                return "reproduced", f"{head}: {d}"
            if mine["pos"] != sy["pos"]:
                return "reproduced", f"{head}: packet {i} cursor {mine['pos']} != sum of widths {sy['pos']}"
            names = [e[0] for e in sy["items"]]
            if mine.get("header") != names[:7] or mine.get("user_data") != names[7:]:
                return "reproduced", f"{head}: packet {i} header view {mine.get('header')} / user-data view {mine.get('user_data')} are not the first seven items / the rest of {names}"
            k += 1
        elif kind == "error":
            if mine is None or mine["kind"] != "error":
                return "reproduced", f"{head}: packet {i} should be reported as unrecognized; got {mine} (end {got['end']})"
            d = _item_diff(sy["items"], mine["items"], f"partial data of packet {i}")
            if d:
                return "reproduced", f"{head}: {d}"
            k += 1
        elif kind in ("withheld", "skipped"):
            if mine is not None:      # (an exception at a LATER packet is judged where the spec expects it)
                return "reproduced", f"{head}: packet {i} should be {kind}; got {mine} (end {got['end']})"
        elif kind == "any":
            if mine is not None:
                k += 1
            elif died:
                return "not-reproduced", "unspecified outcome ended in an exception (allowed)"
        elif kind == "not-clean":
            if mine is not None:
                if mine["kind"] == "packet" and mine["pos"] == 8 * inp["lens"][i]:
                    return "reproduced", f"{head}: packet {i} over-reads / has a negative field width but was delivered as clean: {mine['items']}"
                k += 1
            elif died:
                return "not-reproduced", "over-read ended in an exception (allowed)"
        elif kind == "raises":
            if not died:
                return "reproduced", f"{head}: packet {i} must fail with {sy['error']}; got {mine} (end {got['end']})"
            return "not-reproduced", "agrees"
    if k != len(gy):
        return "reproduced", f"{head}: extra yields {gy[k:]}"
    if spec["end"] == "stop" and got["end"] != "stop":
        return "reproduced", f"{head}: generator ended with {got['end']}"
    return "not-reproduced", "agrees with Spec-XTCE (warning counts are not replayed)"


def finding_key(pid):
    def key(f, req, got):
        import re
        lab = re.sub(r"pkt\d+", "pkt", f["label"])
        lab = re.sub(r"\.\w+:", ".<param>:", lab)
        end = got.get("end", "") if isinstance(got, dict) else ""
        t = req.get("input", {}).get("template")
        if end.startswith("exc:KeyError"):
            return f"{pid}:abstract-dead-end-KeyError-PKT_APID"
        return f"{pid}:{t}:{lab}" + (f":{end}" if end.startswith("exc") else "")
    return key
