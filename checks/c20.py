"""C20 - parsed values carry a raw value (decided part) ; drop-in built-in behaviour and copying (not applicable part).

Decided here: the real _Parameter.__new__ on the five value classes (re-hosted on the proxies: only the C-level base int / float /
str / bytes is swapped, the class bodies and _Parameter.__new__ are the library's) with SYMBOLIC value and raw value, so that 0,
negative, huge, empty and falsy raw values are ordinary assignments: raw_value is the given raw value whenever one is given, and the
value itself otherwise; BoolParameter.__repr__ prints the truthiness.  That every decoded object carries the prescribed raw term is
proved through the decode path by C04, C07 and C08.

NOT decidable by this technique (stated in DESIGN.md and in the evidence): that an int / float / str / bytes SUBCLASS instance
compares, hashes, orders, formats and does arithmetic like the plain value, and that copy, deepcopy and pickle preserve values and
packets.  That is behaviour of CPython's C object model applied to classes that define no such methods; there is no library code
to execute symbolically.  The check verifies, as a precondition it reports, that the value classes and CCSDSPacket / RawPacketData
still define none of the special methods that would put library code on those paths; if one appears the check is INCONCLUSIVE.
"""
import z3

from spv import bv
from spv.harness import Harness, result

SPECIAL = ("__eq__", "__ne__", "__hash__", "__lt__", "__le__", "__gt__", "__ge__", "__format__", "__reduce__", "__reduce_ex__", "__getstate__", "__setstate__",
           "__slots__", "__copy__", "__deepcopy__", "__getnewargs__", "__getnewargs_ex__", "__add__", "__radd__", "__mul__", "__bool__", "__int__", "__float__",
           "__index__", "__str__", "__bytes__", "__len__", "__getitem__", "__contains__", "__iter__")

META = {
    "level": "other",
    "claim": "Bounded symbolic execution of the real _Parameter.__new__ for all five value classes with symbolic value and raw value (every falsy raw "
             "value included) proves the raw-value clause of the property; the 'behaves like the built-in' and copy / deepcopy / pickle clauses are "
             "NOT decided (CPython C object model, no library code) - the check only reports, and requires, that the classes define none of the "
             "special methods that would make library code responsible for them.",
    "trusted": "CPython's object model for built-in subclasses (comparison, hashing, formatting, arithmetic, copyreg); z3; BV proxies",
    "bounds": {"values": "integers in 128-bit range, reals, byte strings of 0..3 bytes, labels"},
    "stubs": ["the C-level bases int / float / str / bytes are replaced by the proxies"],
    "outside_claim": ["comparison / hashing / ordering / formatting / arithmetic of value objects", "copy, deepcopy, pickle of values and packets"],
    "assumptions": ["value classes and packet classes define none of: " + ", ".join(SPECIAL[:16]) + ", ..."],
    "explanation": "partially decided: raw-value attachment is proved by symbolic execution of the real constructor hook; drop-in and copying "
                   "behaviour is CPython's C object model and is outside this technique (reported as a precondition on the absence of special methods)",
}


def defined_specials():
    """special methods defined by the REAL classes themselves (not inherited from the built-in base)"""
    from space_packet_parser import common, packets
    out = []
    allowed = {("BoolParameter", "__repr__"), ("RawPacketData", "__str__"), ("_Parameter", "__new__"), ("CCSDSPacket", "__init__")}
    for cls in (common._Parameter, common.BinaryParameter, common.BoolParameter, common.FloatParameter, common.IntParameter, common.StrParameter,
                packets.RawPacketData, packets.CCSDSPacket):
        for name in SPECIAL:
            if name in cls.__dict__ and (cls.__name__, name) not in allowed:
                out.append(f"{cls.__name__}.{name}")
    return out


class RawValue(Harness):
    kind = "rawvalue"

    def run(self, ctx):
        lib = self.lib
        W = bv.W
        case = ctx.choose("case", 9)
        v, r = z3.BitVec("v", W), z3.BitVec("r", W)
        x, y = z3.Real("x"), z3.Real("y")
        b0, b1 = z3.BitVec("b0", 8), z3.BitVec("b1", 8)
        obl = []
        C = lib.common
        inputs = {"case": case, "v": bv.SymInt(v), "r": bv.SymInt(r), "x": bv.SymReal(x), "y": bv.SymReal(y), "b": bv.SymBytes([b0, b1])}
        if case == 0:      # IntParameter(value, raw)
            o = C.IntParameter(bv.SymInt(v), bv.SymInt(r))
            obl += [("int: value kept", o.t == v), ("int: raw_value is the given raw value (also when it is 0)", _t(o.raw_value) == r)]
        elif case == 1:    # IntParameter(value)
            o = C.IntParameter(bv.SymInt(v))
            obl += [("int: value kept", o.t == v), ("int: raw_value defaults to the value", _t(o.raw_value) == v)]
        elif case == 2:    # FloatParameter(calibrated, raw int)
            o = C.FloatParameter(bv.SymReal(x), bv.SymInt(r))
            obl += [("float: value kept", o.t == x), ("float: raw_value is the given raw value (also when it is 0)", _t(o.raw_value) == r)]
        elif case == 3:    # FloatParameter(value, raw float incl. 0.0) and default
            o = C.FloatParameter(bv.SymReal(x), bv.SymReal(y))
            o2 = C.FloatParameter(bv.SymReal(x))
            obl += [("float: raw float kept (also 0.0)", o.raw_value.t == y), ("float: raw_value defaults to the value", o2.raw_value.t == x)]
        elif case == 4:    # BoolParameter(bool(raw), raw)
            raw = bv.SymInt(r)
            o = C.BoolParameter(bool(raw), raw)
            rep = repr(o)
            obl += [("bool: raw_value kept (also 0)", _t(o.raw_value) == r), ("bool: value is the truthiness", o.t == z3.If(r != 0, z3.BitVecVal(1, W), z3.BitVecVal(0, W))),
                    ("bool: repr prints the truthiness", z3.BoolVal(rep == "True") == (r != 0))]
        elif case == 5:    # StrParameter(label, raw int incl. 0)
            o = C.StrParameter("LABEL", bv.SymInt(r))
            obl += [("str: label kept", o.v == "LABEL"), ("str: raw_value is the given raw value (also when it is 0)", _t(o.raw_value) == r)]
        elif case == 6:    # StrParameter(text, raw bytes incl. empty)
            o = C.StrParameter("", bv.SymBytes([]))
            o2 = C.StrParameter("", bv.SymBytes([b0, b1]))
            o3 = C.StrParameter("")
            obl += [("str: empty raw bytes kept", isinstance(o.raw_value, bv.SymBytes) and len(o.raw_value) == 0),
                    ("str: raw bytes kept", isinstance(o2.raw_value, bv.SymBytes) and len(o2.raw_value) == 2 and z3.eq(o2.raw_value.items[0], b0)),
                    ("str: raw_value defaults to the (empty) value", isinstance(o3.raw_value, str) and o3.raw_value == "")]
        elif case == 7:    # BinaryParameter(bytes)
            o = C.BinaryParameter(bv.SymBytes([b0, b1]))
            e = C.BinaryParameter(bv.SymBytes([]))
            obl += [("binary: value kept", len(o.items) == 2 and z3.eq(o.items[1], b1)),
                    ("binary: raw_value defaults to the value", isinstance(o.raw_value, bv.SymBytes) and o.raw_value.items == o.items or z3.eq(o.raw_value.items[0], b0)),
                    ("binary: empty value has an empty raw value", isinstance(e.raw_value, bv.SymBytes) and len(e.raw_value) == 0)]
        else:              # precondition: no special methods
            sp = defined_specials()
            hooks = [x for x in sp if x.split(".")[1] in COPY_HOOKS]
            sp = [x for x in sp if x not in hooks]
            if hooks and not sp:
                # the library now takes part in copying: that code CAN be executed symbolically - do so (copy / deepcopy of every value
                # class with symbolic value and raw value; pickle is exercised in the concrete replay)
                import copy
                cases = [("int", lambda: C.IntParameter(bv.SymInt(v), bv.SymInt(r))), ("float", lambda: C.FloatParameter(bv.SymReal(x), bv.SymInt(r))),
                         ("float-rawfloat", lambda: C.FloatParameter(bv.SymReal(x), bv.SymReal(y))), ("bool", lambda: C.BoolParameter(bv.SymInt(v), bv.SymInt(r))),
                         ("str", lambda: C.StrParameter("LABEL", bv.SymInt(r))), ("str-emptyraw", lambda: C.StrParameter("TXT", bv.SymBytes([]))),
                         ("binary", lambda: C.BinaryParameter(bv.SymBytes([b0, b1])))]
                for name, mk in cases:
                    o = mk()
                    for how, fn in (("copy", copy.copy), ("deepcopy", copy.deepcopy)):
                        try:
                            c2 = fn(o)
                        except Exception as e:   # noqa: BLE001
                            obl.append((f"{how} of a {name} value raises nothing ({type(e).__name__})", False))
                            continue
                        obl.append((f"{how} of a {name} value keeps the value", _same(c2, o)))
                        obl.append((f"{how} of a {name} value keeps the raw value (also when it is falsy)", _same(getattr(c2, "raw_value", None), o.raw_value)))
                # a whole parsed packet: items, order, raw bytes and cursor
                pk = lib.packets.CCSDSPacket(raw_data=bv.SymBytes([b0, b1, 7, 9]))
                pk.raw_data.pos = 11
                pk["A"] = C.IntParameter(bv.SymInt(v), bv.SymInt(r))
                pk["B"] = C.StrParameter("LABEL", bv.SymInt(r))
                for how, fn in (("copy", copy.copy), ("deepcopy", copy.deepcopy)):
                    try:
                        c2 = fn(pk)
                    except Exception as e:   # noqa: BLE001
                        obl.append((f"{how} of a packet raises nothing ({type(e).__name__})", False))
                        continue
                    obl.append((f"{how} of a packet keeps the items in order", list(c2.keys()) == ["A", "B"] and type(c2) is type(pk)))
                    if list(c2.keys()) == ["A", "B"]:
                        obl.append((f"{how} of a packet keeps values and raw values", z3.And(*[z3.BoolVal(x) if isinstance(x, bool) else x for x in (
                            _same(c2["A"], pk["A"]), _same(c2["A"].raw_value, pk["A"].raw_value), _same(c2["B"].raw_value, pk["B"].raw_value))])))
                    rd = getattr(c2, "raw_data", None)
                    obl.append((f"{how} of a packet keeps the raw bytes", rd is not None and _same(bv.SymBytes(rd.items), bv.SymBytes(pk.raw_data.items))))
                    obl.append((f"{how} of a packet keeps the cursor", rd is not None and rd.pos == 11))
                return result("case8-copyhooks", obl, observe={"cls": "ran"}, inputs=dict(inputs, hooks=hooks))
            if sp:
                # not a violation of the property by itself: the clauses this technique cannot decide are no longer covered by the
                # "CPython does it" argument, so the check must not pass -> inconclusive (exit 2)
                from spv.engine import EngineLimit
                raise EngineLimit("precondition broken: value / packet classes now define " + ", ".join(sp) + "; drop-in / copying behaviour is library code "
                                  "that this technique does not decide")
            rc = lib.real_classes      # the library's own classes (the re-hosted ones subclass the proxies)
            obl += [("value classes subclass the matching built-ins", issubclass(rc["IntParameter"], int) and issubclass(rc["BoolParameter"], int)
                     and issubclass(rc["FloatParameter"], float) and issubclass(rc["StrParameter"], str) and issubclass(rc["BinaryParameter"], bytes))]
        return result(f"case{case}", obl, observe={"cls": "ran"}, inputs=inputs)


TWICE = ("integer", "boolean", "enumerated", "calibrated", "context-calibrated", "string", "binary", "boolean-of-float", "binary-large")
LARGE = 4100          # bytes: beyond any page-sized fast-path threshold
ENUM = {0: "OFF", 1: "ON", 255: "ALL"}


def build_twice(lib, kind):
    E, T = lib.encodings, lib.parameter_types
    i8 = E.IntegerDataEncoding(8, "unsigned")
    if kind == "integer":
        return T.IntegerParameterType("T", i8)
    if kind == "boolean":
        return T.BooleanParameterType("T", i8)
    if kind == "enumerated":
        return T.EnumeratedParameterType("T", i8, enumeration=(bv.SymDict(ENUM) if hasattr(lib, "real_classes") else dict(ENUM)))
    if kind == "calibrated":
        K = lib.calibrators
        return T.IntegerParameterType("T", E.IntegerDataEncoding(8, "unsigned", default_calibrator=K.PolynomialCalibrator(
            [K.PolynomialCoefficient(1.5, 0), K.PolynomialCoefficient(2.0, 1)])))
    if kind == "context-calibrated":       # the context refers to the field's own raw value: holds for some fields and not for others
        K, C = lib.calibrators, lib.comparisons
        return T.IntegerParameterType("T", E.IntegerDataEncoding(8, "unsigned", context_calibrators=[K.ContextCalibrator(
            [C.Comparison("100", "T_SELF", operator=">=", use_calibrated_value=False)], K.PolynomialCalibrator([K.PolynomialCoefficient(-1.0, 0), K.PolynomialCoefficient(0.5, 1)]))]))
    if kind == "string":
        return T.StringParameterType("T", E.StringDataEncoding(fixed_raw_length=8))
    if kind == "binary":
        return T.BinaryParameterType("T", E.BinaryDataEncoding(fixed_size_in_bits=8))
    if kind == "binary-large":
        return T.BinaryParameterType("T", E.BinaryDataEncoding(fixed_size_in_bits=8 * LARGE))
    return T.BooleanParameterType("T", E.FloatDataEncoding(32))


class Twice(Harness):
    """ONE parameter type object decodes two fields in a row (same packet or two packets): each result carries the raw value of ITS OWN field,
    and the first result is not changed by the second decode"""
    kind = "twice"

    def run(self, ctx):
        lib = self.lib
        kind = TWICE[ctx.choose("kind", len(TWICE))]
        same_packet = bool(ctx.choose("same_packet", 2))
        nb = 4 if kind == "boolean-of-float" else 1
        pt = build_twice(lib, kind)
        b1, b2 = bv.fresh_bytes("F1_", nb), bv.fresh_bytes("F2_", nb)
        if kind == "binary-large":        # symbolic first and last byte, concrete filling
            b1, b2 = (bv.SymBytes([z3.BitVec(f"G{j}_0", 8)] + [(7 * j + k) % 251 for k in range(LARGE - 2)] + [z3.BitVec(f"G{j}_1", 8)]) for j in (1, 2))
        inputs = {"kind": kind, "same_packet": same_packet, "b1": b1, "b2": b2}
        if same_packet:
            pk = lib.packets.CCSDSPacket(raw_data=bv.SymBytes(b1.items + b2.items))
            pks = [pk, pk]
        else:
            pks = [lib.packets.CCSDSPacket(raw_data=b1), lib.packets.CCSDSPacket(raw_data=b2)]
        outs = []
        for n in (0, 1):
            try:
                outs.append(pt.parse_value(pks[n]))
            except Exception as e:     # noqa: BLE001 - e.g. an unlisted enumeration value: nothing to check for that field
                outs.append(e)
        obl, classes = [], []
        for n, (o, b) in enumerate(zip(outs, (b1, b2)), 1):
            if isinstance(o, Exception):
                classes.append(type(o).__name__)
                if kind != "enumerated":      # only an unlisted enumeration value may fail
                    obl.append((f"field {n} ({kind}): decoding raises nothing ({type(o).__name__})", False))
                continue
            classes.append("v")
            rv = getattr(o, "raw_value", None)
            if kind == "binary-large":
                ok = isinstance(rv, bv.SymBytes) and len(rv) == LARGE and all(
                    z3.is_true(z3.simplify(bv.byte_term(rv.items[k]) == bv.byte_term(b.items[k]))) for k in (0, 1, LARGE // 2, LARGE - 1))
                obl.append((f"field {n} ({kind}): raw_value is this field's own {LARGE} bytes, as a bytes value", ok))
            elif kind in ("string", "binary"):
                ok = isinstance(rv, bv.SymBytes) and len(rv) == 1 and z3.is_true(z3.simplify(bv.byte_term(rv.items[0]) == bv.byte_term(b.items[0])))
                obl.append((f"field {n} ({kind}): raw_value is this field's own bytes", ok))
            elif kind == "boolean-of-float":
                want = lib.encodings.struct.unpack(">f", b)[0] if hasattr(lib.encodings, "struct") else None
                ok = isinstance(rv, bv.SymReal) and want is not None and z3.eq(z3.simplify(rv.t), z3.simplify(want.t))
                obl.append((f"field {n} ({kind}): raw_value is this field's own float", ok))
            else:
                obl.append((f"field {n} ({kind}): raw_value is this field's own raw value", (_t(rv) == z3.ZeroExt(bv.W - 8, bv.byte_term(b.items[0]))) if isinstance(rv, bv.SymInt) else False))
            if kind == "boolean":
                obl.append((f"field {n} (boolean): value is the truthiness of its own raw value",
                            (o.t == z3.If(bv.byte_term(b.items[0]) != 0, z3.BitVecVal(1, bv.W), z3.BitVecVal(0, bv.W))) if isinstance(o, bv.SymInt) else False))
        return result("/".join(classes), obl, observe={"cls": "ran"}, inputs=inputs)


COPY_HOOKS = ("__reduce__", "__reduce_ex__", "__copy__", "__deepcopy__", "__getstate__", "__setstate__", "__getnewargs__", "__getnewargs_ex__")


def _same(a, b):
    if type(a).__name__ != type(b).__name__:
        return False
    if isinstance(a, bv.SymInt) or isinstance(a, bv.SymReal):
        return a.t == b.t
    if isinstance(a, bv.SymBytes):
        return len(a.items) == len(b.items) and z3.And([bv.byte_term(p) == bv.byte_term(q) for p, q in zip(a.items, b.items)] + [z3.BoolVal(True)])
    if isinstance(a, bv.SymStr):
        return a.v == b.v
    return a == b


def _t(x):
    return x.t if isinstance(x, bv.SymInt) else z3.BitVecVal(-12345, bv.W)


class Twin(RawValue):
    def run(self, ctx):
        r = super().run(ctx)
        r.obligations = [("reachability twin", z3.BoolVal(False))]
        return r


def make(job):
    lib = bv.install(128)
    h = {"rawvalue": RawValue, "twice": Twice, "twin": Twin}[job["h"]](job)
    h.lib = lib
    return h


def jobs(tier):
    return [{"name": "rawvalue", "h": "rawvalue", "params": {}, "must_reach": [f"case{i}" for i in range(9)]},
            {"name": "decode-twice", "h": "twice", "params": {}, "must_reach": ["v/v"]}]


def vacuity_jobs():
    return [{"name": "twin", "h": "twin", "params": {}}]


def concrete(req):
    """the same constructions on the unpatched classes with the witness values"""
    from fractions import Fraction
    from space_packet_parser import common as C
    i = req["input"]
    if req["kind"] == "twice":
        import struct
        import warnings

        class L:
            from space_packet_parser.xtce import calibrators, comparisons, encodings, parameter_types
        from space_packet_parser import packets as P
        pt = build_twice(L, i["kind"])
        b1, b2 = bytes.fromhex(i["b1"]["hex"]), bytes.fromhex(i["b2"]["hex"])
        pks = [P.CCSDSPacket(raw_data=b1 + b2)] * 2 if i["same_packet"] else [P.CCSDSPacket(raw_data=b1), P.CCSDSPacket(raw_data=b2)]
        outs, bad = [], []
        with warnings.catch_warnings():
            warnings.simplefilter("ignore")
            for n in (0, 1):
                try:
                    outs.append(pt.parse_value(pks[n]))
                except Exception as e:    # noqa: BLE001
                    outs.append(e)
        for n, (o, b) in enumerate(zip(outs, (b1, b2)), 1):
            if isinstance(o, Exception):
                if i["kind"] != "enumerated":
                    bad.append(f"field {n}: decoding raises {type(o).__name__}")
                continue
            want = b if i["kind"] in ("string", "binary", "binary-large") else struct.unpack(">f", b)[0] if i["kind"] == "boolean-of-float" else b[0]
            same = o.raw_value == want or (want != want and o.raw_value != o.raw_value)
            if not same:
                bad.append(f"field {n} (bytes {b.hex()[:40]}): raw_value {str(o.raw_value)[:60]!r}, expected {str(want)[:60]!r}")
            if not isinstance(o.raw_value, (int, float, str, bytes)):
                bad.append(f"field {n}: raw_value is a {type(o.raw_value).__name__}, not an int / float / str / bytes value")
            else:
                import copy, pickle
                for how, fn in (("copy", copy.copy), ("deepcopy", copy.deepcopy), ("pickle", lambda z: pickle.loads(pickle.dumps(z)))):
                    try:
                        c2 = fn(o)
                        if not (c2 == o and c2.raw_value == o.raw_value):
                            bad.append(f"field {n}: {how} changes the value or its raw value")
                    except Exception as e:      # noqa: BLE001
                        bad.append(f"field {n}: {how} raises {type(e).__name__}")
            if i["kind"].startswith("boolean") and bool(o) != bool(want):
                bad.append(f"field {n} (bytes {b.hex()}): value {o!r}, expected {bool(want)}")
        return {"cls": "ran", "ok": not bad, "bad": bad}
    case, v, r = i["case"], i["v"], i["r"]
    x, y = float(Fraction(i["x"]["q"])), float(Fraction(i["y"]["q"]))
    b = bytes.fromhex(i["b"]["hex"])
    ok = True
    if case == 0:
        o = C.IntParameter(v, r)
        ok = o == v and o.raw_value == r and type(o.raw_value) is int
    elif case == 1:
        o = C.IntParameter(v)
        ok = o == v and o.raw_value == v
    elif case == 2:
        o = C.FloatParameter(x, r)
        ok = o == x and o.raw_value == r
    elif case == 3:
        ok = C.FloatParameter(x, y).raw_value == y and C.FloatParameter(x).raw_value == x
    elif case == 4:
        o = C.BoolParameter(bool(r), r)
        ok = o.raw_value == r and repr(o) == repr(bool(r)) and o == bool(r)
    elif case == 5:
        ok = C.StrParameter("LABEL", r).raw_value == r
    elif case == 6:
        ok = C.StrParameter("", b"").raw_value == b"" and C.StrParameter("", b).raw_value == b and C.StrParameter("").raw_value == ""
    elif case == 7:
        ok = C.BinaryParameter(b).raw_value == b and C.BinaryParameter(b"").raw_value == b""
    else:
        import copy
        import pickle
        ok = True
        objs = [C.IntParameter(v, r), C.FloatParameter(x, r), C.FloatParameter(x, y), C.BoolParameter(bool(v), r), C.StrParameter("LABEL", r),
                C.StrParameter("TXT", b""), C.BinaryParameter(b), C.StrParameter("OFF", 0), C.FloatParameter(1.5, 0), C.FloatParameter(2.5, 0.0)]
        for o in objs:
            for fn in (copy.copy, copy.deepcopy, lambda z: pickle.loads(pickle.dumps(z))):
                c2 = fn(o)
                ok = ok and type(c2) is type(o) and c2 == o and c2.raw_value == o.raw_value and type(c2.raw_value) is type(o.raw_value)
        from space_packet_parser import packets as P
        pk = P.CCSDSPacket(raw_data=b + bytes([7, 9]))
        pk.raw_data.pos = 11
        pk["A"] = C.IntParameter(v, r)
        pk["B"] = C.StrParameter("LABEL", r)
        for fn in (copy.copy, copy.deepcopy, lambda z: pickle.loads(pickle.dumps(z))):
            c2 = fn(pk)
            ok = ok and type(c2) is type(pk) and list(c2.items()) == list(pk.items()) and bytes(c2.raw_data) == bytes(pk.raw_data) \
                and c2.raw_data.pos == 11 and c2["A"].raw_value == r and c2["B"].raw_value == r
    return {"cls": "ran", "ok": ok}


def judge(req, got):
    if got.get("cls") != "ran":
        return "error", str(got)[:300]
    if req["kind"] == "twice" and not got["ok"]:
        i = req["input"]
        return "reproduced", f"one {i['kind']} parameter type object decoding two fields in a row ({'same packet' if i['same_packet'] else 'two packets'}): " + "; ".join(got["bad"])
    return ("not-reproduced", "holds on the real classes") if got["ok"] else ("reproduced", f"case {req['input']['case']} fails on the real classes with {req['input']}")


def finding_key(f, req, got):
    return "C20:" + f["label"][:50]
