"""LIA + views back end for the framing loop.

Integers are z3 Ints; a bytes value is a view (offset, length) into one symbolic array STREAM: Int -> Int, so packet
lengths up to 65536, prefixes up to 2^31 and totals beyond the 20 MB trim threshold are plain integers.  Only the
cells the code actually reads exist as terms; the byte-range axiom 0 <= S[i] <= 255 is instantiated per cell read.
"""
import builtins
import io
import socket

import z3

from .engine import Ctx, Cut, EngineLimit

STREAM = z3.Array("STREAM", z3.IntSort(), z3.IntSort())


def _c():
    c = Ctx.cur
    if c is None:
        raise EngineLimit("proxy used outside a path context")
    return c


def it(x):
    if isinstance(x, LInt):
        return x.t
    if isinstance(x, z3.ArithRef):
        return x
    if isinstance(x, builtins.bool):
        x = builtins.int(x)
    if isinstance(x, builtins.int):
        return z3.IntVal(builtins.int(x))
    raise TypeError(type(x))


def smin(a, b):
    return z3.If(a <= b, a, b)


def smax(a, b):
    return z3.If(a >= b, a, b)


def sel(idx):
    c = _c()
    idx = z3.simplify(idx)
    t = z3.Select(STREAM, idx)
    cells = c.notes.setdefault("cells", {})
    key = idx.get_id()
    if key not in cells:
        cells[key] = idx
        c.s.add(t >= 0, t <= 255)      # byte-range axiom, instantiated lazily for this cell
        c.lazy_axioms += 1
    return t


class LInt:
    def __init__(self, t):
        self.t = it(t)

    def _b(self, o, f):
        try:
            return LInt(z3.simplify(f(self.t, it(o))))
        except TypeError:
            return NotImplemented

    def _rb(self, o, f):
        try:
            return LInt(z3.simplify(f(it(o), self.t)))
        except TypeError:
            return NotImplemented

    __add__ = lambda s, o: s._b(o, lambda a, b: a + b)
    __radd__ = lambda s, o: s._rb(o, lambda a, b: a + b)
    __sub__ = lambda s, o: s._b(o, lambda a, b: a - b)
    __rsub__ = lambda s, o: s._rb(o, lambda a, b: a - b)

    def __mul__(self, o):
        if isinstance(o, LInt):
            if z3.is_int_value(o.t):
                o = o.t.as_long()
            elif z3.is_int_value(self.t):
                return LInt(o.t * self.t.as_long())
            else:
                raise EngineLimit("nonlinear multiplication")
        if not isinstance(o, builtins.int):
            return NotImplemented
        return LInt(self.t * o)

    __rmul__ = __mul__

    def __floordiv__(self, o):
        if not isinstance(o, builtins.int) or o <= 0:
            raise EngineLimit("division by a non-constant")
        return LInt(self.t / o)          # z3 Int div floors for a positive divisor

    def __mod__(self, o):
        if not isinstance(o, builtins.int) or o <= 0:
            raise EngineLimit("modulo by a non-constant")
        return LInt(self.t % o)

    def __rshift__(self, o):
        o = o.__index__() if isinstance(o, LInt) else o
        if o < 0:
            raise ValueError("negative shift count")
        return LInt(self.t / (1 << o))

    def __lshift__(self, o):
        o = o.__index__() if isinstance(o, LInt) else o
        if o < 0:
            raise ValueError("negative shift count")
        return LInt(self.t * (1 << o))

    BITS = 20

    def _bitwise(self, o, f):
        """bit-by-bit over BITS bits (div / mod by constants stay linear); both operands must be in [0, 2^BITS)"""
        try:
            b = it(o)
        except TypeError:
            return NotImplemented
        a = self.t
        c = _c()
        nbits = None
        for k in (8, 9, 12, 16, 17, self.BITS):
            lim = 1 << k
            if c.check(z3.Or(a < 0, a >= lim, b < 0, b >= lim)) == z3.unsat:
                nbits = k
                break
        if nbits is None:
            raise EngineLimit("bitwise operation on integers outside [0, 2^20) on the LIA back end")
        acc = z3.IntVal(0)
        for i in range(nbits):
            ba, bb = (a / (1 << i)) % 2, (b / (1 << i)) % 2
            acc = acc + (1 << i) * f(ba, bb)
        return LInt(z3.simplify(acc))

    def __and__(self, o):
        if isinstance(o, builtins.int) and o >= 0 and (o & (o + 1)) == 0:
            return LInt(self.t % (o + 1))
        return self._bitwise(o, lambda x, y: z3.If(z3.And(x == 1, y == 1), 1, 0))

    __rand__ = __and__

    def __or__(self, o):
        # common shape `hi << k | lo`: x a multiple of 2^k and 0 <= y < 2^(k+1) -- exact with two div/mod terms
        try:
            y = it(o)
        except TypeError:
            return NotImplemented
        c = _c()
        for x, yy in ((self.t, y), (y, self.t)):
            for k in (16, 8, 4):
                m = 1 << k
                if c.check(z3.Or(x % m != 0, x < 0, yy < 0, yy >= 2 * m)) == z3.unsat:
                    carry = z3.If(yy >= m, z3.If((x / m) % 2 == 1, 0, m), 0)
                    return LInt(z3.simplify(x + (yy % m) + carry))
        return self._bitwise(o, lambda a, b: z3.If(z3.Or(a == 1, b == 1), 1, 0))

    __ror__ = __or__

    def __xor__(self, o):
        return self._bitwise(o, lambda x, y: z3.If(x != y, 1, 0))

    __rxor__ = __xor__

    def __rpow__(self, base):
        return base ** self.__index__()

    def __neg__(self):
        return LInt(-self.t)

    def _cmp(self, o, f):
        try:
            return _c().fork(f(self.t, it(o)))
        except TypeError:
            return NotImplemented

    __eq__ = lambda s, o: s._cmp(o, lambda a, b: a == b)
    __ne__ = lambda s, o: s._cmp(o, lambda a, b: a != b)
    __lt__ = lambda s, o: s._cmp(o, lambda a, b: a < b)
    __le__ = lambda s, o: s._cmp(o, lambda a, b: a <= b)
    __gt__ = lambda s, o: s._cmp(o, lambda a, b: a > b)
    __ge__ = lambda s, o: s._cmp(o, lambda a, b: a >= b)
    __hash__ = None

    def __bool__(self):
        return _c().fork(self.t != 0)

    def __index__(self):
        return _c().pick(self.t)

    __int__ = __index__

    def _tag(self):
        # concrete terms print as the number; symbolic ones as a tag that identifies the TERM (recorders map cells back to terms)
        t = z3.simplify(self.t)
        if z3.is_int_value(t):
            return builtins.str(t.as_long())
        TAGS[self.t.get_id()] = self.t
        return f"<lint#{self.t.get_id()}>"

    def __format__(self, spec):
        return self._tag()

    def __repr__(self):
        return self._tag()

    __str__ = __repr__


TAGS = {}


class ViewBytes:
    """bytes value = STREAM[off : off+length] with symbolic off / length."""

    def __new__(cls, *a, **k):
        return object.__new__(cls)

    def __init__(self, off=0, length=0, *a):
        if isinstance(off, ViewBytes):
            off, length = off.off, off.length
        elif isinstance(off, builtins.bytes):
            if builtins.len(off) != 0:
                raise EngineLimit("concrete bytes on the LIA back end")
            off, length = 0, 0
        self.off = z3.simplify(it(off))
        self.length = z3.simplify(it(length))

    def sym_len(self):
        return LInt(self.length)

    def __len__(self):
        return LInt(self.length).__index__()

    def __bool__(self):
        return _c().fork(self.length != 0)

    def _clamp(self, i, default):
        if i is None:
            return default
        i = it(i)
        return z3.If(i < 0, smax(i + self.length, z3.IntVal(0)), smin(i, self.length))

    def __getitem__(self, k):
        if isinstance(k, slice):
            if k.step is not None:
                raise EngineLimit("stepped slice of a view")
            a = self._clamp(k.start, z3.IntVal(0))
            b = self._clamp(k.stop, self.length)
            return ViewBytes(self.off + a, smax(b - a, z3.IntVal(0)))
        c = _c()
        k = it(k)
        if c.fork(z3.Or(k >= self.length, k < -self.length)):
            raise IndexError("index out of range")
        return LInt(sel(self.off + z3.If(k < 0, k + self.length, k)))

    def __add__(self, o):
        if isinstance(o, ViewBytes):
            c = _c()
            if c.fork(o.length == 0):
                return ViewBytes(self.off, self.length)
            if c.fork(self.length == 0):
                return ViewBytes(o.off, o.length)
            if c.check(self.off + self.length != o.off) != z3.unsat:
                raise EngineLimit("non-contiguous concatenation of stream views")
            return ViewBytes(self.off, self.length + o.length)
        if isinstance(o, builtins.bytes) and builtins.len(o) == 0:
            return ViewBytes(self.off, self.length)
        if isinstance(o, builtins.bytes):
            raise EngineLimit("concatenation with concrete bytes")
        return NotImplemented

    def __radd__(self, o):
        if isinstance(o, builtins.bytes) and builtins.len(o) == 0:
            return ViewBytes(self.off, self.length)
        if isinstance(o, builtins.bytes):
            raise EngineLimit("concatenation with concrete bytes")
        return NotImplemented

    def __repr__(self):
        return "<view>"

    __str__ = __repr__

    def __format__(self, spec):
        return "<view>"


def sym_len(x):
    if isinstance(x, ViewBytes):
        return x.sym_len()
    return builtins.len(x)


class _Meta(type):
    def __instancecheck__(cls, x):
        return isinstance(x, cls._accept)


class IntShimL(metaclass=_Meta):
    _accept = (builtins.int, LInt)

    def __new__(cls, x=0, *a):
        if isinstance(x, LInt):
            return x
        return builtins.int(x, *a)

    @staticmethod
    def from_bytes(data, byteorder="big", *, signed=False):
        if isinstance(data, ViewBytes):
            if byteorder != "big" or signed:
                raise EngineLimit("from_bytes variant")
            n = builtins.len(data)        # picks the (small) symbolic length
            if n > 8:
                raise Cut("from_bytes of more than 8 stream bytes on the LIA back end")
            acc = z3.IntVal(0)
            for i in range(n):
                acc = acc * 256 + sel(data.off + i)
            return LInt(acc)
        return builtins.int.from_bytes(data, byteorder, signed=signed)

    @staticmethod
    def to_bytes(x, *a, **k):
        if isinstance(x, LInt):
            raise EngineLimit("to_bytes on the LIA back end")
        return builtins.int.to_bytes(x, *a, **k)


class BytesShimL(metaclass=_Meta):
    _accept = (builtins.bytes, ViewBytes)

    def __new__(cls, x=b"", *a, **k):
        if isinstance(x, ViewBytes):
            return ViewBytes(x.off, x.length)
        return builtins.bytes(x, *a, **k)


class StructShimL:
    """struct.unpack / unpack_from of integer codes on stream views (exact two's complement, explicit byte order)"""
    import struct as _rs
    error = _rs.error
    calcsize = staticmethod(_rs.calcsize)
    pack = staticmethod(_rs.pack)

    @staticmethod
    def _decode(fmt, view, offset):
        from .bv import INT_CODES, parse_struct_format
        little, codes = parse_struct_format(fmt)
        out, pos = [], offset
        for code, size in codes:
            if code == "x":
                pos += size
                continue
            if code not in INT_CODES:
                raise EngineLimit("float struct codes on the LIA back end")
            idx = range(pos + size - 1, pos - 1, -1) if little else range(pos, pos + size)
            acc = z3.IntVal(0)
            for i in idx:
                acc = acc * 256 + sel(view.off + i)
            if INT_CODES[code][1]:
                acc = z3.If(acc >= (1 << (8 * size - 1)), acc - (1 << (8 * size)), acc)
            out.append(LInt(z3.simplify(acc)))
            pos += size
        return tuple(out)

    @staticmethod
    def unpack(fmt, data):
        import struct as rs
        if isinstance(data, ViewBytes):
            size = rs.calcsize(fmt)
            if _c().fork(data.length != size):
                raise rs.error(f"unpack requires a buffer of {size} bytes")
            return StructShimL._decode(fmt, data, 0)
        return rs.unpack(fmt, data)

    @staticmethod
    def unpack_from(fmt, buffer, offset=0):
        import struct as rs
        if isinstance(buffer, ViewBytes):
            size = rs.calcsize(fmt)
            offset = offset.__index__() if isinstance(offset, LInt) else offset
            if offset < 0:
                raise EngineLimit("negative unpack_from offset on a view")
            if _c().fork(buffer.length - offset < size):
                raise rs.error(f"unpack_from requires a buffer of at least {size + offset} bytes")
            return StructShimL._decode(fmt, buffer, offset)
        return rs.unpack_from(fmt, buffer, offset)


class WouldBlock(BaseException):
    """the socket peer has sent everything it has and has not closed: recv() would block for ever"""


class SymFile(io.BufferedIOBase):
    """Regular binary file of total size T: read(n) returns min(n, rest) bytes (rest if n < 0), b'' at the end."""

    def __init__(self, total, max_reads):
        self.total = it(total)
        self.posn = z3.IntVal(0)
        self.reads = 0
        self.max_reads = max_reads
        self.read_log = []

    def seek(self, off, whence=0):
        if whence == io.SEEK_END:
            self.posn = self.total + it(off)
        elif whence == io.SEEK_CUR:
            self.posn = self.posn + it(off)
        else:
            self.posn = it(off)
        return LInt(self.posn)

    def tell(self):
        return LInt(self.posn)

    def read(self, n=-1):
        self.reads += 1
        if self.reads > self.max_reads:
            raise Cut("more source reads than the bound R")
        n = it(-1 if n is None else n)
        rem = self.total - self.posn
        ln = z3.simplify(z3.If(n < 0, rem, smin(n, rem)))
        v = ViewBytes(self.posn, ln)
        self.posn = z3.simplify(self.posn + ln)
        return v

    def readable(self):
        return True

    def __repr__(self):
        return "<SymFile>"


class SymSocket(socket.socket):
    """Stream socket that delivers the first T bytes of STREAM in chunks of symbolic size 1..min(n, rest).
    closed=True: the peer closes after T bytes (recv then returns b''); closed=False: recv would block."""

    def __init__(self, total, max_reads, closed):   # deliberately does not open a descriptor
        self._total = it(total)
        self._posn = z3.IntVal(0)
        self._reads = 0
        self._max_reads = max_reads
        self._closed = closed
        self.chunks = []

    def recv(self, n, flags=0):
        c = _c()
        self._reads += 1
        if self._reads > self._max_reads:
            raise Cut("more source reads than the bound R")
        n = it(n)
        rem = z3.simplify(self._total - self._posn)
        if c.fork(rem <= 0):
            if self._closed:
                return ViewBytes(self._posn, 0)
            raise WouldBlock()
        k = z3.Int(f"chunk{len(self.chunks)}")
        c.s.add(k >= 1, k <= rem, k <= n)
        self.chunks.append(k)
        v = ViewBytes(self._posn, k)
        self._posn = z3.simplify(self._posn + k)
        return v

    def close(self):
        pass

    def __del__(self):
        pass

    def __repr__(self):
        return "<SymSocket>"


_saved = []
_SENT = object()


def uninstall():
    while _saved:
        obj, attr, old = _saved.pop()
        if old is _SENT:
            try:
                delattr(obj, attr)
            except AttributeError:
                pass
        else:
            setattr(obj, attr, old)


def install():
    from . import bv
    bv.uninstall()
    uninstall()
    from space_packet_parser import packets
    for attr in ("RawPacketData", "_extract_bits", "ccsds_generator"):
        if not hasattr(packets, attr):
            raise EngineLimit(f"patched name missing after a refactor: packets.{attr}")
    real = packets.RawPacketData
    SymRaw = bv.rehost_class(real, ViewBytes)

    def _set(obj, attr, val):
        _saved.append((obj, attr, obj.__dict__.get(attr, _SENT)))
        setattr(obj, attr, val)
    _set(packets, "RawPacketData", SymRaw)
    _set(packets, "int", IntShimL)
    _set(packets, "len", sym_len)
    _set(packets, "bytes", BytesShimL)
    _set(packets, "struct", StructShimL)       # not used by the library today; present so that a refactor to struct stays decidable
    StructShimL.Struct = lambda fmt: bv.StructObj(fmt, StructShimL)
    bv.rehost_struct_objects(packets, _set, StructShimL)
    return packets, SymRaw
