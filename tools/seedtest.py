#!/usr/bin/env python3
"""tools/seedtest.py <seed-dir> <seed-id> <property> <checks,comma> [--tier quick|thorough] [--needs "..."]

Confirms a seeded change independently and runs the checks against it:
  1. scratch worktree of /repo HEAD (under /tmp, removed afterwards): apply patch.diff, run the pinned test suite, run the demonstration
     (must exit non-zero), un-apply, run the demonstration again (must exit 0)
  2. apply the patch to /repo itself, run the listed checks, undo it (git checkout -- .)
  3. write /verif/seeded/<seed-id>/{patch.diff, demo.py, meta.json}
"""
import json
import os
import shutil
import subprocess
import sys
import time

src, sid, prop, checks = sys.argv[1:5]
tier = sys.argv[sys.argv.index("--tier") + 1] if "--tier" in sys.argv else "quick"
needs = sys.argv[sys.argv.index("--needs") + 1] if "--needs" in sys.argv else ""
patch = os.path.join(src, "patch.diff")
demo = os.path.join(src, "demo.py")
wt = f"/tmp/val_{sid}"
ran = []


def sh(cmd, **kw):
    ran.append(cmd if isinstance(cmd, str) else " ".join(cmd))
    return subprocess.run(cmd, shell=isinstance(cmd, str), capture_output=True, text=True, **kw)


def run_demo():
    r = sh(f"cd {wt} && PYTHONPATH={wt} timeout 300 /venv/bin/python {demo}")
    return r.returncode, (r.stdout + r.stderr)[-400:]


meta = {"id": sid, "property": prop, "needs_to_manifest": needs, "tier": tier}
sh(f"git -C /repo worktree remove --force {wt}")
shutil.rmtree(wt, ignore_errors=True)
assert sh(f"git -C /repo worktree add -q --detach {wt} HEAD").returncode == 0
try:
    r = sh(f"git -C {wt} apply {patch}")
    meta["patch_applies"] = r.returncode == 0
    if r.returncode == 0:
        t = sh(f"cd {wt} && timeout 1500 /venv/bin/python -m pytest -q -p no:cacheprovider --timeout=900 2>&1 | tail -3")
        meta["suite_with_change"] = t.stdout.strip().splitlines()[-1] if t.stdout.strip() else "?"
        code, out = run_demo()
        meta["demo_with_change"] = {"exit": code, "tail": out}
        sh(f"git -C {wt} apply -R {patch}")
        code, out = run_demo()
        meta["demo_without_change"] = {"exit": code, "tail": out}
finally:
    sh(f"git -C /repo worktree remove --force {wt}")
    shutil.rmtree(wt, ignore_errors=True)

inplace = "--in-repo" in sys.argv
confirmed = meta.get("patch_applies") and "passed" in meta.get("suite_with_change", "") and "failed" not in meta.get("suite_with_change", "") \
    and meta["demo_with_change"]["exit"] != 0 and meta["demo_without_change"]["exit"] == 0
meta["confirmed"] = bool(confirmed)
results = {}
if confirmed:
    if inplace:
        assert sh("git -C /repo status --porcelain").stdout.strip() == "", "/repo is dirty"
        assert sh(f"git -C /repo apply {patch}").returncode == 0
        envp = ""
    else:
        # evaluation on a scratch worktree of /repo HEAD with the patch applied (VERIF_REPO), used while other runs need /repo itself
        assert sh(f"git -C /repo worktree add -q --detach {wt} HEAD").returncode == 0
        assert sh(f"git -C {wt} apply {patch}").returncode == 0
        envp = f"VERIF_REPO={wt} "
    meta["checked_against"] = "/repo with the patch applied (git apply ... git checkout -- .)" if inplace else f"scratch worktree of /repo HEAD with the patch applied ({wt}, via VERIF_REPO)"
    try:
        for c in checks.split(","):
            t0 = time.time()
            r = sh(f"cd /verif && {envp}./check {c} --tier {tier}")
            lines = [ln[:400] for ln in r.stdout.splitlines() if ln.startswith(("VIOLATION", "  counterexample", "INCONCLUSIVE", "KNOWN"))]
            results[c] = {"exit": r.returncode, "seconds": round(time.time() - t0, 1), "lines": lines[:6]}
    finally:
        if inplace:
            sh("git -C /repo checkout -- .")
        else:
            sh(f"git -C /repo worktree remove --force {wt}")
            shutil.rmtree(wt, ignore_errors=True)
meta["checks"] = results
meta["caught_by"] = [c for c, v in results.items() if v["exit"] == 1]
meta["commands"] = ran
out = f"/verif/seeded/{sid}"
os.makedirs(out, exist_ok=True)
shutil.copy(patch, os.path.join(out, "patch.diff"))
shutil.copy(demo, os.path.join(out, "demo.py"))
if os.path.exists(os.path.join(src, "notes.md")):
    shutil.copy(os.path.join(src, "notes.md"), os.path.join(out, "notes.md"))
json.dump(meta, open(os.path.join(out, "meta.json"), "w"), indent=1)
print(json.dumps({k: meta[k] for k in ("id", "confirmed", "caught_by")}), {c: v["exit"] for c, v in results.items()})
for c, v in results.items():
    for ln in v["lines"][:3]:
        print("   ", c, ln[:300])
