"""Independent structural comparison of definitions (used by C09, C11, C15, C16, C17).

`snapshot(obj)` walks a library object graph and returns nested plain data (tuples / dicts / scalars).  Unlike the
library's own AttrComparable.__eq__ it (a) compares length-adjuster closures by their slope / intercept cells, (b) keeps
dictionary order, (c) records object identity structure on request (`identity=True` gives every Parameter / ParameterType /
SequenceContainer a stable id so that sharing can be compared).
"""
import dataclasses
import types

SKIP_ATTRS = {"parse_func", "_struct_format", "_abc_impl"}
NAMESPACE_BOOKKEEPING = {"ns", "xtce_schema_uri", "xtce_ns_prefix"}


def closure_cells(fn):
    """the free variables of a closure as a dict (slope / intercept of a linear adjuster)"""
    if fn.__closure__ is None:
        return {}
    out = {}
    for name, cell in zip(fn.__code__.co_freevars, fn.__closure__):
        try:
            v = cell.cell_contents
        except ValueError:
            v = "<empty>"
        if isinstance(v, (int, float, str, bool, type(None))):
            out[name] = v
    return out


def snapshot(obj, *, skip=(), _depth=0, _seen=None, _top=False):
    if _depth > 60:
        return "<too deep>"
    if _seen is None:
        _seen = {}
    if obj is None or isinstance(obj, (bool, int, float, str, bytes)):
        return (type(obj).__name__, obj) if isinstance(obj, (bool, float, bytes)) else obj
    if isinstance(obj, (types.FunctionType, types.MethodType)):
        return ("closure", getattr(obj, "__name__", "?"), tuple(sorted(closure_cells(obj).items())))
    if isinstance(obj, tuple) and hasattr(obj, "_fields"):
        return (type(obj).__name__,) + tuple((f, snapshot(getattr(obj, f), skip=skip, _depth=_depth + 1, _seen=_seen)) for f in obj._fields)
    if isinstance(obj, (list, tuple)):
        return tuple(snapshot(x, skip=skip, _depth=_depth + 1, _seen=_seen) for x in obj)
    if isinstance(obj, dict):
        return ("dict",) + tuple((snapshot(k, skip=skip, _depth=_depth + 1, _seen=_seen), snapshot(v, skip=skip, _depth=_depth + 1, _seen=_seen))
                                 for k, v in obj.items())
    if isinstance(obj, (set, frozenset)):
        return ("set",) + tuple(sorted(repr(x) for x in obj))
    mod = type(obj).__module__ or ""
    if mod.startswith("space_packet_parser"):
        # named, shared entities (a parameter used by several containers, a nested container) are expanded once
        if type(obj).__name__ in ("Parameter", "SequenceContainer") or type(obj).__name__.endswith("ParameterType"):
            key = id(obj)
            if key in _seen and not _top:
                return ("ref", type(obj).__name__, getattr(obj, "name", None))
            _seen[key] = True
        if dataclasses.is_dataclass(obj):
            attrs = {f.name: getattr(obj, f.name) for f in dataclasses.fields(obj)}
        else:
            attrs = dict(vars(obj))
        out = [type(obj).__name__]
        for k in sorted(attrs):
            if k in SKIP_ATTRS or k in skip or k.startswith("__"):
                continue
            out.append((k, snapshot(attrs[k], skip=skip, _depth=_depth + 1, _seen=_seen)))
        return tuple(out)
    return ("repr", repr(obj))


def public_state(defn):
    """what 'parsing never modifies the definition' is judged on: the XML the definition serialises to, and every PUBLIC attribute (names
    not starting with an underscore) of the objects in its graph.  Private attributes (caches) are not part of a definition's meaning; a
    cache that changes RESULTS is caught by the behavioural obligations instead."""
    import lxml.etree as ET

    def strip(x):
        if isinstance(x, tuple):
            return tuple(strip(v) for v in x if not (isinstance(v, tuple) and len(v) == 2 and isinstance(v[0], str) and v[0].startswith("_")))
        if isinstance(x, dict):
            return {k: strip(v) for k, v in x.items()}
        return x
    saved = defn.date
    try:
        if defn.date is None:
            defn.date = "2000-01-01T00:00:00"
        try:
            xml = ET.tostring(defn.to_xml_tree())
        except Exception as e:      # noqa: BLE001 - unwritable definitions are C09's subject
            xml = "unwritable:" + type(e).__name__
    finally:
        defn.date = saved
    return xml, strip(definition_snapshot(defn))


def definition_snapshot(defn, *, skip_namespace=False):
    """types / parameters / containers of a definition, by name"""
    skip = NAMESPACE_BOOKKEEPING if skip_namespace else ()
    # every entity the dictionaries hold is expanded exactly once, under its name at the top level; wherever else it occurs (entry lists, a
    # parameter's type) it is a reference by name - so the snapshot does not depend on the order in which the graph happens to be walked, and
    # the dictionaries are compared by name (the order of a definition's dictionaries carries no meaning; inheritor and entry lists keep theirs)
    seen = {id(v): True for d in (defn.parameter_types, defn.parameters, defn.containers) for v in d.values()}
    return {
        "parameter_types": tuple(sorted(((k, snapshot(v, _seen=seen, _top=True)) for k, v in defn.parameter_types.items()), key=lambda kv: str(kv[0]))),
        "parameters": tuple(sorted(((k, snapshot(v, _seen=seen, _top=True)) for k, v in defn.parameters.items()), key=lambda kv: str(kv[0]))),
        "containers": tuple(sorted(((k, snapshot(v, _seen=seen, _top=True)) for k, v in defn.containers.items()), key=lambda kv: str(kv[0]))),
        "meta": tuple((k, snapshot(getattr(defn, k))) for k in ("root_container_name", "space_system_name", "validation_status", "xtce_version", "date",
                                                                 "ns", "xtce_schema_uri", "xtce_ns_prefix") if k not in skip),
        # anything else that lives on the definition object (state a parser might leave behind)
        "other_attributes": tuple((k, snapshot(v, _depth=50)) for k, v in sorted(vars(defn).items())
                                  if k not in ("parameter_types", "parameters", "containers", "root_container_name", "space_system_name", "validation_status",
                                               "xtce_version", "date", "ns", "xtce_schema_uri", "xtce_ns_prefix")),
    }


def diff(a, b, path="", limit=3):
    """first differences between two snapshots"""
    out = []

    def rec(x, y, p):
        if len(out) >= limit:
            return
        if type(x) is not type(y):
            out.append(f"{p}: {x!r:.120} != {y!r:.120}")
            return
        if isinstance(x, dict):
            if list(x.keys()) != list(y.keys()):
                out.append(f"{p}: keys {list(x.keys())} != {list(y.keys())}")
                return
            for k in x:
                rec(x[k], y[k], f"{p}.{k}")
        elif isinstance(x, tuple):
            if len(x) != len(y):
                out.append(f"{p}: length {len(x)} != {len(y)}: {x!r:.160} != {y!r:.160}")
                return
            for i, (u, v) in enumerate(zip(x, y)):
                label = u[0] if isinstance(u, tuple) and u and isinstance(u[0], str) else i
                rec(u, v, f"{p}/{label}")
        elif x != y:
            out.append(f"{p}: {x!r:.120} != {y!r:.120}")
    rec(a, b, path)
    return out


def to_jsonable(x):
    if isinstance(x, tuple):
        return [to_jsonable(v) for v in x]
    if isinstance(x, dict):
        return {str(k): to_jsonable(v) for k, v in x.items()}
    if isinstance(x, bytes):
        return {"hex": x.hex()}
    return x
