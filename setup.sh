#!/bin/bash
# Build the overlay interpreter used by every check: /venv's python + /venv's site-packages + /repo + z3-solver
# (offline, from the wheelhouse).  Idempotent.
set -e
cd "$(dirname "$0")"
V="$(pwd)/.venv"
if [ ! -x $V/bin/python ] || ! $V/bin/python -c 'import z3, lxml, space_packet_parser' 2>/dev/null; then
  rm -rf $V
  /venv/bin/python -m venv $V
  SP=$($V/bin/python -c 'import site; print(site.getsitepackages()[0])')
  printf "import site; site.addsitedir('/venv/lib/python3.12/site-packages')\n/repo\n" > $SP/_verif_overlay.pth
  PIP_NO_INDEX=1 $V/bin/pip install -q --no-index --find-links /opt/veriftools/wheels z3-solver >/dev/null
fi
$V/bin/python -c 'import z3, lxml, space_packet_parser; print("overlay ok: z3", z3.get_version_string(), "spp", space_packet_parser.__file__)'
