"""C09 - writing a definition to XTCE XML and loading it back preserves its meaning.  Harness: checks/xmlcfg.py (RoundTrip)."""
import os

from checks import docgen, xmlcfg
from checks.xmlcfg import concrete, judge, make  # noqa: F401

META = {
    "level": "model_checking",
    "claim": "For definitions assembled from objects, exhaustively over the listed configuration variables of every model class (integer / float / "
             "string / binary encodings with byte order, calibrators, context calibrators, every length-specification variant and adjuster, "
             "delimiters; enumerated, boolean, absolute / relative time with units, scale, offset, epoch, offsetFrom; parameters and containers with "
             "descriptions, abstract flags, nesting, every criteria form, base container with and without criteria, three namespace conventions), "
             "and for the listed template documents loaded from XML: write -> load gives a definition that an independent structural comparison "
             "(which also compares length-adjuster closures by slope / intercept) finds equal in types, parameters and containers, and z3 proves on "
             "a fully symbolic packet that the definition before and after the round trip decode every packet to identical results (outcome, names, "
             "values, raw values, cursor).  Document CONTENT (names, numbers, strings) is concrete representative data; the claim is exhaustive "
             "over the configuration variables only.",
    "trusted": "lxml / libxml2 (run natively); the structural snapshot; z3 + BV proxies for the decoding comparison; every configuration re-run "
               "in a separate process on the unpatched library (XML digest, outcome and comparison must agree)",
    "bounds": {"quick": {"subjects": {k: docgen.dims_product(v[0]) for k, v in docgen.SUBJECTS.items() if k != "container"}, "strides (quick)": "container 13, boolean-time 5, integer 5, float 7, string 5 (coprime with all dimension sizes; phase = VERIF_SEED)",
                         "templates": ["T2", "T4", "O|T4 (ContainerSet in reverse order)", "T6", "JPSS"]},
               "thorough": {"subjects": {k: docgen.dims_product(v[0]) for k, v in docgen.SUBJECTS.items()}, "templates": "all + bundled + a C07 family slice"}},
    "stubs": ["lxml not stubbed"],
    "outside_claim": ["definitions outside the configuration space / template family", "XML comments, processing instructions, foreign attributes (not represented)",
                      "AggregateParameterType / ArrayParameterType (unsupported by the library)"],
    "assumptions": [],
    "explanation": "configuration-space exhaustive; the solver decides path feasibility, the picked configuration and the decoding equalities",
}


SEED = int(os.environ.get("VERIF_SEED", "0") or 0)


def finding_key(f, req, got):
    i = req.get("input", {})
    who = i.get("subject") or i.get("template")
    cfg = i.get("cfg", {})
    if got.get("stage") == "write" and cfg.get("criteria") == "none":
        return "C09:container-base-without-criteria-cannot-be-written"
    if got.get("stage") == "write" and i.get("subject") == "boolean-time" and cfg.get("unit") is None:
        return "C09:time-type-without-units-cannot-be-written"
    return f"C09:{who}:{got.get('stage')}:{f['label'].split(':')[0][:60]}"


def jobs(tier):
    out = []
    stride = {"container": 13, "boolean-time": 5, "integer": 5, "float": 7, "string": 5} if tier == "quick" else {}     # strides coprime with every dimension size
    for s, (dims, _) in docgen.SUBJECTS.items():
        out.append({"name": f"obj-{s}", "h": "roundtrip", "params": {"subject": s, "stride": stride.get(s, 1), "phase": SEED}, "split": 32, "chunk": 40,
                    "max_paths": 400000})
    tpls = ["T2", "T4", "O|T4", "T6", "JPSS"] if tier == "quick" else ["T1", "T2", "T3", "T4", "O|T4", "O|T3", "O|JPSS_CONTRIVED", "T5", "T6", "JPSS", "JPSS_CONTRIVED", "S|UTF-16|term|lookup|3",
                                                                           "S|UTF-8|lead8|ref-raw-adj|0", "B|ref-raw-adj|5", "B|lookup|0"]
    for t in tpls:
        out.append({"name": f"xml-{t}", "h": "roundtrip", "params": {"template": t}, "split": 16, "chunk": 30, "max_paths": 100000})
    return out


def vacuity_jobs():
    return [{"name": "twin", "h": "twin", "params": {"subject": "binary"}, "max_paths": 10}]
