"""C19 - CLI listings show each packet once, in order, and never crash (decided on the row-selection logic).

Real code executed: cli.describe_packets.callback and cli.parse.callback (the click-decorated functions' own bodies) with
`ccsds_generator` / `XtcePacketDefinition` in the cli module replaced by stubs that yield n distinct packet tokens, and `Table`,
`console.print`, `pretty.pprint` replaced by recorders.  n is a configuration variable (every n in 0..N explored); the packet
index of `spp parse --packet i` is a SYMBOLIC integer that flows through the real bounds test and the real list subscript.
"That neither command hangs on any file, including an empty one" is discharged by C10 (the framer terminates on every finite
source) and is a stated dependency here, not re-proved through click.  Every path is additionally cross-validated END TO END:
the unpatched `spp` commands are run through click's test runner on a real file with n real packets and the printed rows /
packet are compared.
"""
import io
import os
import re
import tempfile

import z3

from spv import bv
from spv.harness import Harness, result

META = {
    "level": "model_checking",
    "claim": "PARSE END TO END (BV back end): the real `spp parse` body loads a real template definition from a file and runs the real generators over a SYMBOLIC packet file "
             "(template T4, files of two and three packets; thorough more): what reaches the pretty-printer without an index is exactly the list of packets Spec-XTCE decodes, in file order and with "
             "their values, and with a SYMBOLIC index i in [0, n+1] exactly the i-th of them or the out-of-range message.  DESCRIBE END TO END: the real describe-packets body on the real framer over a symbolic file of 1, 2 and 11 (thorough also 3, 10, 12) packets whose data "
             "lengths are symbolic 1..65536: the rows are exactly the packets in order (first five, ellipsis, last five beyond ten), each row carrying "
             "that packet's own length, sequence count and APID.  With the framer stubbed: for every number of packets n = 0..22 (thorough 0..30; beyond the elision threshold and beyond the default --max-items) the real describe-packets row selection adds, in order, every packet exactly once "
             "when n <= 10 and otherwise the first five, one ellipsis row and the last five; for every n and a symbolic index i in [-1, n+1] the real "
             "parse command shows exactly packet i when 0 <= i < n and prints the out-of-range message otherwise (negative indices are not part of "
             "the property and are not asserted on), and no exception escapes either command.",
    "trusted": "click / rich rendering (stubbed by recorders in the symbolic run, exercised for real in the per-path cross-validation); C10 for termination",
    "bounds": {"quick": {"n": "0..22", "i": "symbolic in [-1, n+1]"}, "thorough": {"n": "0..30", "i": "symbolic in [-1, n+1]"}},
    "stubs": ["cli.ccsds_generator / cli.XtcePacketDefinition: yield n distinct tokens", "rich Table / console.print / pretty.pprint: recorders",
              "open(): a real empty temporary file"],
    "outside_claim": ["rendering by rich", "click argument parsing", "negative packet indices", "files with more than N packets"],
    "assumptions": ["the framer terminates and yields each packet once (C02, C10)"],
}


class Token:
    def __init__(self, k):
        self.k = k
        self.header_values = (0, 0, 0, 100 + k, 3, k, 0)

    def __repr__(self):
        return f"<pkt {self.k}>"


class Recorder:
    def __init__(self):
        self.rows, self.printed, self.pp = [], [], []

    def table_cls(self):
        rec = self

        class Table:
            def __init__(self, *a, **k):
                pass

            def add_column(self, *a, **k):
                pass

            def add_row(self, *cells):
                rec.rows.append(tuple(cells))
        return Table


class FakeConsole:
    def __init__(self, rec):
        self.rec = rec

    def print(self, *a, **k):
        self.rec.printed.append(a[0] if a else None)


class FakePretty:
    def __init__(self, rec):
        self.rec = rec

    def pprint(self, obj, **k):
        self.rec.pp.append(obj)

    def Pretty(self, obj, **k):   # noqa: N802
        return obj


def patched_cli(lib_cli, n, rec):
    saved = {k: getattr(lib_cli, k) for k in ("ccsds_generator", "XtcePacketDefinition", "Table", "console", "pretty")}
    tokens = [Token(k) for k in range(n)]
    lib_cli.ccsds_generator = lambda f, **kw: iter(tokens)

    class FakeDef:
        @classmethod
        def from_xtce(cls, *a, **k):
            return cls()

        def packet_generator(self, f, **kw):
            return iter(tokens)
    lib_cli.XtcePacketDefinition = FakeDef
    lib_cli.Table = rec.table_cls()
    lib_cli.console = FakeConsole(rec)
    lib_cli.pretty = FakePretty(rec)
    return saved, tokens


def restore(lib_cli, saved):
    for k, v in saved.items():
        setattr(lib_cli, k, v)


def expected_rows(n):
    ks = list(range(n)) if n <= 10 else list(range(5)) + ["..."] + list(range(n - 5, n))
    return ks


class Describe(Harness):
    """packets are real (re-hosted) RawPacketData objects with SYMBOLIC header bytes and data, so that two packets of the file may be
    byte-identical: a listing must still show each of them"""
    kind = "describe"

    def run(self, ctx):
        from pathlib import Path
        from space_packet_parser import cli
        N = self.job["params"]["N"]
        n = ctx.choose("n", N + 1)
        rec = Recorder()
        pk = []
        for k in range(n):
            bs = [z3.BitVec(f"k{k}_{j}", 8) for j in range(7)]
            bs[4], bs[5] = 0, 0
            pk.append(self.lib.RawPacketData(bv.SymBytes(bs)))
        saved, _ = patched_cli(cli, 0, rec)
        cli.ccsds_generator = lambda f, **kw: iter(pk)
        try:
            try:
                cli.describe_packets.callback(Path(self.empty))
                exc = None
            except Exception as e:    # noqa: BLE001
                exc = type(e).__name__
        finally:
            restore(cli, saved)
        cells = [tuple(str(v) for v in p.header_values) for p in pk]
        ks = expected_rows(n)
        want = [cells[k] if k != "..." else ("...",) * 7 for k in ks]
        got = [tuple(r) for r in rec.rows]
        got_idx = [("..." if all(c == "..." for c in r) else next((k for k in range(n) if cells[k] == r), "?")) for r in got]
        obl = [("no exception", exc is None), (f"n={n}: rows are packets {ks}, got {got_idx}", got == want)]
        if n == 0:
            obl.append(("empty file reported", any("No packets" in str(x) for x in rec.printed)))
        return result(f"n{n}", obl, observe={"rows": len(got), "exc": exc, "cls": "ran"}, inputs={"n": n, "packets": [bv.SymBytes(p.items) for p in pk]})


class Parse(Harness):
    kind = "parse"

    def run(self, ctx):
        from pathlib import Path
        from space_packet_parser import cli
        N = self.job["params"]["N"]
        n = ctx.choose("n", N + 1)
        i = z3.BitVec("i", bv.W)
        ctx.assume(z3.And(i >= -1, i <= n + 1))
        rec = Recorder()
        saved, tokens = patched_cli(cli, n, rec)
        try:
            try:
                cli.parse.callback(Path(self.empty), Path(self.empty), bv.SymInt(i, nb=8), 20, 40, 0)
                exc = None
            except Exception as e:    # noqa: BLE001
                exc = type(e).__name__
        finally:
            restore(cli, saved)
        shown = rec.pp[0].k if rec.pp and isinstance(rec.pp[0], Token) else None
        oor = bool(rec.printed) and not rec.pp        # "an out-of-range message": a printed line and no packet shown (the wording is not compared)
        obl = [("no exception escapes", z3.Or(z3.BoolVal(exc is None), i < 0))]
        if shown is not None:
            obl.append((f"shown packet {shown} is the one asked for", z3.Or(i == shown, i < 0)))
        elif oor:
            obl.append(("out-of-range message only for an invalid index", z3.Or(i >= n, i < 0)))
        elif exc is None:
            obl.append(("something is shown", z3.BoolVal(False)))
        return result("shown" if shown is not None else "oor" if oor else f"exc:{exc}", obl,
                      observe={"shown": shown, "oor": oor, "exc": exc, "cls": "ran"}, inputs={"n": n, "i": bv.SymInt(i)})


class DescribeE2E(Harness):
    """describe-packets END TO END on the LIA / views back end: the real command body runs the REAL framer on a symbolic file of P packets whose
    lengths are symbolic (1..65536 data bytes each), so a framing slip that only shows for particular lengths is visible in the listing"""
    kind = "describe-e2e"
    validate = False

    def run(self, ctx):
        import re as _re
        from pathlib import Path
        from space_packet_parser import cli
        from spv import lia
        P = self.job["params"]["P"]
        Ls = [z3.Int(f"L{i}") for i in range(P)]
        offs, o = [], z3.IntVal(0)
        for i in range(P):
            ctx.assume(z3.And(Ls[i] >= 1, Ls[i] <= 65536))
            offs.append(o)
            ctx.assume(lia.sel(o + 4) * 256 + lia.sel(o + 5) == Ls[i] - 1)
            o = o + 6 + Ls[i]
        T = z3.simplify(o)
        rec = Recorder()
        saved = {k: getattr(cli, k) for k in ("Table", "console", "pretty")}
        had_open = "open" in cli.__dict__
        cli.Table, cli.console, cli.pretty = rec.table_cls(), FakeConsole(rec), FakePretty(rec)
        cli.open = lambda path, mode="rb": lia.SymFile(T, 4 * P + 4)
        try:
            try:
                cli.describe_packets.callback(Path("symbolic.bin"))
                exc = None
            except Exception as e:    # noqa: BLE001
                exc = type(e).__name__
        finally:
            for k, v in saved.items():
                setattr(cli, k, v)
            if not had_open:
                del cli.open
        ks = expected_rows(P)
        obl = [("no exception", exc is None), (f"{P} packets: {len(ks)} rows", len(rec.rows) == len(ks))]

        def term(cell):
            m = _re.fullmatch(r"<lint#(\d+)>", cell)
            return lia.TAGS[int(m.group(1))] if m else z3.IntVal(int(cell))
        if len(rec.rows) == len(ks):
            for row, k in zip(rec.rows, ks):
                if k == "...":
                    obl.append(("ellipsis row", all(c == "..." for c in row)))
                    continue
                ok = len(row) == 7 and not any(c == "..." for c in row)
                obl.append((f"row for packet {k} has seven cells", ok))
                if ok:
                    seq = (lia.sel(offs[k] + 2) % 64) * 256 + lia.sel(offs[k] + 3)
                    apid = (lia.sel(offs[k]) % 8) * 256 + lia.sel(offs[k] + 1)
                    obl.append((f"row {k}: PKTLEN is packet {k}'s length field", term(row[6]) == Ls[k] - 1))
                    obl.append((f"row {k}: SEQCNT / APID are packet {k}'s", z3.And(term(row[5]) == seq, term(row[3]) == apid)))
        return result(f"P{P}", obl, observe={"cls": "ran"}, inputs={"P": P, **{f"L{i}": lia.LInt(Ls[i]) for i in range(P)}})


def _spelled(xml, p):
    """the definition FILE handed to the command may be spelled with comments and whitespace between all elements (same definition)"""
    if p.get("commented"):
        from checks import xmlvar
        xml = xmlvar.with_whitespace(xmlvar.with_comments(xml, xmlvar.gap_positions(xmlvar.canonical_root(xml))))
    return xml


def _cli_parse(cli, open_fn, def_path, index, def_cls=None, skip=0):
    """the real parse command body with the terminal output recorded; -> (recorder, exception name)"""
    from pathlib import Path
    rec = Recorder()
    saved = {k: getattr(cli, k) for k in ("console", "pretty", "XtcePacketDefinition")}
    had_open = "open" in cli.__dict__
    cli.console, cli.pretty = FakeConsole(rec), FakePretty(rec)
    if def_cls is not None:
        cli.XtcePacketDefinition = def_cls
    cli.open = open_fn
    try:
        try:
            cli.parse.callback(Path("symbolic.bin"), Path(def_path), index, 20, 40, skip)
            exc = None
        except Exception as e:    # noqa: BLE001
            exc = type(e).__name__
    finally:
        for k, v in saved.items():
            setattr(cli, k, v)
        if not had_open:
            del cli.open
    return rec, exc


from checks import e2e as _e2e      # noqa: E402


class ParseCLI(_e2e.E2E):
    """`spp parse FILE XTCE [--packet i]` END TO END on the BV back end: the real command body loads a real template definition from a file, runs
    the real definition-level generator over a SYMBOLIC packet file, and what it hands to the pretty-printer is compared with Spec-XTCE: without
    an index the list of all decodable packets in file order, with a SYMBOLIC index i exactly the i-th of them, or the out-of-range message"""
    kind = "parse-cli"

    def _run(self, stream, index):
        from space_packet_parser import cli
        lib = self.lib

        class Def:
            @classmethod
            def from_xtce(cls, path, **kw):
                return bv.symbolize_definition(lib.definitions.XtcePacketDefinition.from_xtce(path, **kw))
        return _cli_parse(cli, lambda path, mode="rb": bv.SymFileBV(stream), self.xml_path, index, Def, skip=self.job["params"].get("skip", 0))

    def run(self, ctx):
        if self.load_error:
            p = self.job["params"]
            return result("load-error", [(f"the definition file (a valid document) loads ({self.load_error})", False)], observe={"cls": "ran"},
                          inputs={"stream": bv.SymBytes([]), "template": p["template"], "lens": list(p["lens"]), "idx": 0, "parse_bad": True, "yield_unrec": False})
        return super().run(ctx)

    def collect(self, ctx, stream, parse_bad, yield_unrec, n):
        rec, exc = self._run(stream, None)
        lst = rec.pp[0] if rec.pp and isinstance(rec.pp[0], list) else []
        self._end = "stop" if exc is None and rec.pp else "exc:" + str(exc)
        self._plain_end = None
        if self._end != "stop":
            # the command failed: whether an exception is allowed for this file is decided on the definition's own generator (same code, same
            # exception), which also delivers the packets before the failing one; the command must not fail where the generator does not
            del ctx.warnings[:]
            ys, self._plain_end = super().collect(ctx, stream, parse_bad, yield_unrec, n)
            return ys, self._plain_end
        return list(lst), self._end

    def extra(self, ctx, stream, pk, yields, index_of):
        if self._end != "stop":
            # a file the definition cannot decode (Spec-XTCE decides whether the exception is allowed): the index form fails the same way
            # the command must not fail where the generator does not; and where the generator itself raises (a packet the definition cannot
            # decode) the command ends in that traceback - the property says it never does ("on any file"): reported, and listed as a KNOWN
            # finding in known_findings.json (how the CLI should report a decoding error is a design decision of the maintainers)
            obl = [("spp parse fails only on a file on which the definition's generator fails", self._plain_end != "stop")]
            if self._spec_end in ("exc", "exc-allowed"):
                # (only where Spec-XTCE allows / demands the decoder's exception; a generator that raises for a packet it should decode is an
                #  ordinary violation, reported by the packet obligations above)
                obl.append(("spp parse does not end in a traceback when a packet cannot be decoded", False))
            return obl, {"idx": 0}, {"index": None, "cli_end": self._end}
        n = len(yields)
        i = z3.BitVec("idx", bv.W)
        ctx.assume(z3.And(i >= 0, i <= n + 1))
        rec, exc = self._run(stream, bv.SymInt(i, nb=4, nonneg=True))
        shown = rec.pp[0] if rec.pp else None
        oor = bool(rec.printed) and not rec.pp        # "an out-of-range message": a printed line and no packet shown (the wording is not compared)
        obl = [("parse --packet i: no exception escapes", exc is None)]
        k = None
        if shown is not None and not isinstance(shown, list):
            k = index_of(shown)
            pos = next((j for j, y in enumerate(yields) if index_of(y) == k), None) if k is not None else None
            obl.append(("parse --packet i shows the i-th packet of the listing", (i == pos) if pos is not None else False))
        elif oor:
            obl.append(("out-of-range message only for an index beyond the listing", i >= n))
        elif exc is None:
            obl.append(("parse --packet i shows a packet or the out-of-range message", False))
        return obl, {"idx": bv.SymInt(i)}, {"index": {"shown": k, "oor": oor, "exc": exc}}


class Twin(Parse):
    def run(self, ctx):
        r = super().run(ctx)
        r.obligations = [("reachability twin", z3.BoolVal(False))]
        return r


def make(job):
    if job["h"] == "describe-e2e":
        from spv import lia
        lia.install()
        h = DescribeE2E(job)
        return h
    if job["h"] == "parse-cli":
        from checks import templates
        from spv import specxtce
        p = job["params"]
        xml, _, _ = templates.get(p["template"])
        xml = _spelled(xml, p)
        lib = bv.install(max(128, 8 * max(p["lens"]) + 64))
        h = ParseCLI(job)
        h.lib = lib
        fd, h.xml_path = tempfile.mkstemp(prefix="spv_c19_", suffix=".xml")
        os.write(fd, xml)
        os.close(fd)
        import atexit
        atexit.register(lambda q=h.xml_path: os.path.exists(q) and os.unlink(q))
        h.spec = specxtce.Spec(xml)
        try:
            h.defn, h.load_error = bv.symbolize_definition(lib.definitions.XtcePacketDefinition.from_xtce(io.BytesIO(xml))), None
        except Exception as e:     # noqa: BLE001 - reported as a counterexample by run()
            h.defn, h.load_error = None, type(e).__name__
        return h
    lib = bv.install(128)
    h = {"describe": Describe, "parse": Parse, "twin": Twin}[job["h"]](job)
    fd, path = tempfile.mkstemp(prefix="spv_c19_")
    os.close(fd)
    h.empty = path
    h.lib = lib
    import atexit
    atexit.register(lambda: os.path.exists(path) and os.unlink(path))
    return h


def jobs(tier):
    N = 22 if tier == "quick" else 30          # beyond the elision threshold (10) AND beyond the default --max-items (20)
    return [{"name": "describe", "h": "describe", "params": {"N": N}, "split": 8, "chunk": 20, "must_reach": ["n0", "n10", "n11"]},
            {"name": "parse", "h": "parse", "params": {"N": N}, "split": 16, "chunk": 30, "must_reach": ["shown", "oor"]}] + \
        [{"name": "parse-cli-T4-9-10-skip-header-bytes-3", "h": "parse-cli", "params": {"template": "T4", "lens": [9, 10], "flagsets": [1], "skip": 3}, "split": 16, "chunk": 25,
          "max_paths": 100000, "must_reach": []}] + \
        [{"name": "parse-cli-T6-12-commented-definition", "h": "parse-cli", "params": {"template": "T6", "lens": [12], "flagsets": [1], "commented": True}, "split": 8, "chunk": 25,
          "max_paths": 100000, "must_reach": []}] + \
        [{"name": f"parse-cli-{t}-{'-'.join(map(str, lens))}", "h": "parse-cli", "params": {"template": t, "lens": lens, "flagsets": [1]}, "split": 16, "chunk": 25,
          "max_paths": 200000, "must_reach": []} for t, lens in ((("T4", [9, 10]), ("T4", [9, 9, 9]), ("T1", [19])) if tier == "quick" else (("T4", [9, 10, 9]), ("T4", [10, 9, 9]), ("T1", [19]), ("T6", [12, 12])))] + \
        [{"name": f"describe-e2e-P{P}", "h": "describe-e2e", "params": {"P": P}, "split": 8, "chunk": 20, "must_reach": [f"P{P}"]} for P in ((1, 2, 11) if tier == "quick" else (1, 2, 3, 10, 11, 12))]


def vacuity_jobs():
    return [{"name": "twin", "h": "twin", "params": {"N": 3}}]


# ------------------------------------------------------------------------------------------------- concrete side: the real commands
MINI = b"""<?xml version='1.0' encoding='UTF-8'?>
<xtce:SpaceSystem xmlns:xtce="http://www.omg.org/space/xtce" name="Mini"><xtce:TelemetryMetaData><xtce:ParameterTypeSet>
<xtce:IntegerParameterType name="U48"><xtce:IntegerDataEncoding sizeInBits="48" encoding="unsigned"/></xtce:IntegerParameterType>
<xtce:IntegerParameterType name="U16"><xtce:IntegerDataEncoding sizeInBits="16" encoding="unsigned"/></xtce:IntegerParameterType>
</xtce:ParameterTypeSet><xtce:ParameterSet><xtce:Parameter name="HDR" parameterTypeRef="U48"/><xtce:Parameter name="MARK" parameterTypeRef="U16"/></xtce:ParameterSet>
<xtce:ContainerSet><xtce:SequenceContainer name="CCSDSPacket"><xtce:EntryList><xtce:ParameterRefEntry parameterRef="HDR"/>
<xtce:ParameterRefEntry parameterRef="MARK"/></xtce:EntryList></xtce:SequenceContainer></xtce:ContainerSet></xtce:TelemetryMetaData></xtce:SpaceSystem>"""


def real_cli(kind, n, i=None, blobs=None):
    from click.testing import CliRunner
    from space_packet_parser import cli, packets
    with tempfile.TemporaryDirectory(prefix="spv_c19_") as d:
        pf, xf = os.path.join(d, "p.bin"), os.path.join(d, "x.xml")
        with open(pf, "wb") as f:
            if blobs is not None:
                for b in blobs:
                    f.write(b)
            else:
                for k in range(n):
                    f.write(packets.create_ccsds_packet((7000 + k).to_bytes(2, "big"), apid=100 + k, sequence_count=k))
        open(xf, "wb").write(MINI)
        runner = CliRunner()
        if kind == "describe":
            r = runner.invoke(cli.spp, ["describe-packets", pf], terminal_width=200)
        else:
            r = runner.invoke(cli.spp, ["parse", pf, xf, f"--packet={i}"], terminal_width=200)
    exc = type(r.exception).__name__ if r.exception is not None and not isinstance(r.exception, SystemExit) else None
    return r.output, exc


def header_tuple(b):
    bits = "".join(f"{x:08b}" for x in b)
    f = lambda a, n: int(bits[a:a + n], 2)
    return [f(0, 3), f(3, 1), f(4, 1), f(5, 11), f(16, 2), f(18, 14), len(b) - 7]


def real_rows(blobs):
    out, exc = real_cli("describe", len(blobs), blobs=blobs)
    rows = []
    for line in out.splitlines():
        cells = [c.strip() for c in re.split(r"[\u2502\u2503|]", line) if c.strip()]
        if len(cells) == 7 and all(re.fullmatch(r"\d+", c) for c in cells):
            rows.append([int(c) for c in cells])
        elif len(cells) == 7 and all(c in ("...", "\u2026") for c in cells):
            rows.append("...")
    return rows, exc


def _e2e_blobs(i):
    from space_packet_parser import packets
    import hashlib
    return [bytes(packets.create_ccsds_packet(hashlib.shake_128(bytes([j])).digest(i[f"L{j}"]), apid=100 + j, sequence_count=j)) for j in range(i["P"])]


def concrete(req):
    if req["kind"] == "parse-cli":
        return _parse_cli_concrete(req)
    i = req["input"]
    if req["kind"] == "describe-e2e":
        rows, exc = real_rows(_e2e_blobs(i))
        return {"cls": "ran", "rows": len(rows), "exc": exc, "row_list": rows}
    if req["kind"] == "describe":
        rows, exc = real_rows([bytes.fromhex(p["hex"]) for p in i["packets"]])
        return {"cls": "ran", "rows": len(rows), "exc": exc, "row_list": rows}
    out, exc = real_cli("parse", i["n"], i["i"])
    m = re.search(r"'MARK':\s*(\d+)", out)
    multi = len(re.findall(r"'MARK':", out))
    shown = int(m.group(1)) - 7000 if m and multi == 1 else None
    return {"cls": "ran", "shown": shown, "oor": bool(out.strip()) and multi == 0 and exc is None, "exc": exc}


def _parse_cli_concrete(req):
    from checks import templates
    from space_packet_parser import cli
    i = req["input"]
    xml, _, _ = templates.get(i["template"])
    stream = bytes.fromhex(i["stream"]["hex"])
    skip = (req.get("params") or {}).get("skip", 0)
    with tempfile.TemporaryDirectory(prefix="spv_c19_") as d:
        xf = os.path.join(d, "x.xml")
        open(xf, "wb").write(_spelled(xml, req.get("params") or {}))
        if not stream:
            rec, exc = _cli_parse(cli, lambda path, mode="rb": io.BytesIO(b""), xf, None)
            return {"cls": "ran", "empty_file": {"exc": exc, "printed": [str(x)[:80] for x in rec.pp]}}

        def runner(_xml, _stream):
            rec, exc = _cli_parse(cli, lambda path, mode="rb": io.BytesIO(_stream), xf, None, skip=skip)
            lst = rec.pp[0] if rec.pp and isinstance(rec.pp[0], list) else []
            return list(lst), ("stop" if exc is None and rec.pp else "exc:" + str(exc))
        pp = dict(req.get("params") or {}, template=i["template"])
        got = _e2e.run_real(xml, stream, True, False, len(i["lens"]), runner=runner, p=pp)
        if got["end"] != "stop":
            cli_end = got["end"]
            got = _e2e.run_real(xml, stream, True, False, len(i["lens"]), p=pp)
            got.update(index=None, cli_end=cli_end)
            return got
        rec, exc = _cli_parse(cli, lambda path, mode="rb": io.BytesIO(stream), xf, i["idx"], skip=skip)
    shown = rec.pp[0] if rec.pp else None
    k = None
    if shown is not None and not isinstance(shown, list):
        raw, o, j = bytes(shown.raw_data), 0, 0
        while o + skip + 6 <= len(stream):
            o += skip
            n = 7 + int.from_bytes(stream[o + 4:o + 6], "big")
            if stream[o:o + n] == raw and k is None:
                k = j
            o += n
            j += 1
    got["index"] = {"shown": k, "oor": bool(rec.printed) and not rec.pp, "exc": exc}
    return got


def judge(req, got):
    if got.get("cls") in ("WORKER-ERROR", "WORKER-DIED", "TIMEOUT"):
        return "error", str(got)[:300]
    i = req["input"]
    if req["kind"] == "parse-cli" and "empty_file" in got:
        if got["empty_file"]["exc"]:
            return "reproduced", f"spp parse on an empty packet file with the definition {i['template']}" + (" spelled with comments and whitespace between all elements" if (req.get("params") or {}).get("commented") else "") + f" ends in {got['empty_file']['exc']}"
        return "not-reproduced", "loads"
    if req["kind"] == "parse-cli":
        verdict, why = _e2e.judge(req, got)
        if verdict != "not-reproduced":
            return verdict, "spp parse (no index): " + why
        if got.get("cli_end"):
            if got["end"] == "stop":
                return "reproduced", f"spp parse on template {i['template']} file {i['stream']['hex']} ends in {got['cli_end']} although the definition's generator decodes the file"
            return "reproduced", (f"spp parse on template {i['template']} file {i['stream']['hex']}: the definition's generator raises {got['end'][4:]} for a packet it cannot decode "
                                  f"(allowed for the generator) and the command ends in that traceback ({got['cli_end'][4:]})")
        ys, ix, k = got["yields"], got["index"], i["idx"]
        head = f"spp parse --packet {k} on template {i['template']} file {i['stream']['hex']} (listing shows input packets {[y['i'] for y in ys]})"
        if ix["exc"]:
            return "reproduced", f"{head}: ends in {ix['exc']}"
        if k < len(ys):
            # byte-identical packets cannot be told apart in the replay: accept the first input packet with the shown bytes
            return ("not-reproduced", "shown") if ix["shown"] is not None and ix["shown"] <= ys[k]["i"] and not ix["oor"] else \
                ("reproduced", f"{head}: shown input packet {ix['shown']}, out-of-range message {ix['oor']}")
        return ("not-reproduced", "message") if ix["oor"] else ("reproduced", f"{head}: no out-of-range message (shown {ix['shown']})")
    if req["kind"] == "describe-e2e":
        want = [header_tuple(b) if k != "..." else "..." for k, b in zip(expected_rows(i["P"]), [None] * 99)] if False else None
        blobs = _e2e_blobs(i)
        want = [header_tuple(blobs[k]) if k != "..." else "..." for k in expected_rows(i["P"])]
        if got.get("exc") or got.get("row_list") != want:
            return "reproduced", f"spp describe-packets on a file of {i['P']} packets with data lengths {[i[f'L{j}'] for j in range(i['P'])]}: rows {str(got.get('row_list'))[:300]} exc={got.get('exc')}; expected {str(want)[:300]}"
        return "not-reproduced", "rows as specified"
    if req["kind"] == "describe":
        blobs = [bytes.fromhex(p["hex"]) for p in i["packets"]]
        want = [header_tuple(blobs[k]) if k != "..." else "..." for k in expected_rows(i["n"])]
        if got["exc"] or got["row_list"] != want:
            return "reproduced", f"spp describe-packets on a file with packets {[b.hex() for b in blobs]}: rows {got['row_list']} exc={got['exc']}; expected {want}"
        return "not-reproduced", "rows as specified"
    n, k = i["n"], i["i"]
    if k < 0:
        return "not-reproduced", "negative index: no statement"
    if got["exc"]:
        return "reproduced", f"spp parse --packet {k} on a file of {n} packets ends in {got['exc']}"
    if 0 <= k < n:
        return ("not-reproduced", "shown") if got["shown"] == k else ("reproduced", f"spp parse --packet {k} of {n}: shown {got['shown']}, out-of-range message {got['oor']}")
    return ("not-reproduced", "message") if got["oor"] else ("reproduced", f"spp parse --packet {k} of {n}: no out-of-range message (shown {got['shown']})")


def finding_key(f, req, got):
    i = req.get("input", {})
    if req.get("kind") == "describe":
        return "C19:describe-packets-duplicate-rows" if 1 <= i.get("n", 0) <= 9 else f"C19:describe:n={i.get('n')}"
    if req.get("kind") == "describe-e2e":
        return "C19:describe-e2e:" + f["label"].split(":")[0][:40]
    if req.get("kind") == "parse-cli" and f["label"].startswith("spp parse does not end in a traceback"):
        return "C19:parse-traceback-when-a-packet-cannot-be-decoded"
    if req.get("kind") == "parse-cli":
        return "C19:parse-cli:" + re.sub(r"pkt\d+", "pkt", f["label"])[:50]
    if i.get("i") is not None and i.get("i") == i.get("n"):
        return "C19:parse-index-equal-to-count-IndexError"
    return f"C19:parse:{f['label'][:40]}"
