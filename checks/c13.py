"""C13 - primary-header construction and header accessors are exact inverses.

Real code executed: create_ccsds_packet, RawPacketData accessors (version_number ... header_values, data_length),
_extract_bits; and (job 'reframe') the real ccsds_generator on the LIA/views back end.
"""
import z3

from spv import bv
from spv.harness import Harness, result

FIELDS = [("version_number", 3), ("type", 1), ("secondary_header_flag", 1), ("apid", 11), ("sequence_flags", 2), ("sequence_count", 14)]
START = {"version_number": 0, "type": 3, "secondary_header_flag": 4, "apid": 5, "sequence_flags": 16, "sequence_count": 18}

META = {
    "level": "model_checking",
    "claim": "All six header fields are unconstrained symbolic integers (negative and huge included) and the data content is symbolic: z3 "
             "proves on every path of the real create_ccsds_packet that 'constructed' happens exactly when every field is in range and "
             "1 <= len(data) <= 65536, that the 48-bit header equals the CCSDS layout of the given values followed by len-1, that every "
             "accessor returns the given value and data_length == len-1; conversely for an arbitrary symbolic buffer of 7..12 bytes every "
             "accessor equals the per-bit layout (all 2^48 headers at once); and the real framer re-frames a constructed packet of symbolic "
             "length 1..65536 as exactly that packet. Cross-talk between adjacent fields is decided, not sampled.",
    "trusted": "z3; BV proxies (cross-validated per path against the unpatched library); data lengths are the listed concrete set "
               "{0,1,2,255,256,257,65535,65536,65537} for construction and symbolic 1..65536 for re-framing",
    "bounds": {"quick": {"data lengths": [0, 1, 2, 255, 256, 257, 65535, 65536, 65537], "fields": "unconstrained 128-bit signed",
                         "converse buffers": [7, 8, 12], "reframe": "1 packet, data length symbolic 1..65536"},
               "thorough": {"data lengths": [0, 1, 2, 3, 7, 255, 256, 257, 4095, 4096, 65535, 65536, 65537], "fields": "unconstrained 192-bit signed",
                            "converse buffers": [7, 8, 9, 12, 16], "reframe": "1 packet, all three source kinds"}},
    "stubs": ["int.to_bytes modelled exactly (OverflowError when the value does not fit)"],
    "outside_claim": ["non-integer field values (TypeError path)", "field values beyond the BV width"],
    "assumptions": ["data beyond the first and last 4 bytes of long data fields is concrete (content is only appended, never inspected)"],
}


def layout_bits(items, start, n):
    bits = []
    for k in range(start, start + n):
        b = bv.byte_term(items[k // 8])
        bits.append(z3.Extract(7 - k % 8, 7 - k % 8, b))
    return bits[0] if n == 1 else z3.Concat(*bits)


class Construct(Harness):
    kind = "construct"

    def run(self, ctx):
        lib = self.lib
        W = bv.W
        n = self.job["params"]["n"]
        vals = {f: z3.BitVec(f, W) for f, _ in FIELDS}
        # symbolic content at both ends of the data, concrete in the middle for the large sizes
        if n <= 16:
            data = bv.fresh_bytes("D", n)
        else:
            head, tail = bv.fresh_bytes("Dh", 4), bv.fresh_bytes("Dt", 4)
            data = bv.SymBytes(head.items + [0x5A] * (n - 8) + tail.items)
        args = {f: bv.SymInt(t) for f, t in vals.items()}
        in_range = z3.And([z3.And(vals[f] >= 0, vals[f] < (1 << w)) for f, w in FIELDS])
        len_ok = 1 <= n <= 65536
        inputs = {"data_len": n, "data_head": bv.SymBytes(data.items[:4]), "data_tail": bv.SymBytes(data.items[-4:] if n >= 4 else []),
                  **{f: args[f] for f, _ in FIELDS}}
        try:
            pkt = lib.packets.create_ccsds_packet(data, **args)
        except ValueError:
            return result("ValueError", [("rejected only when out of range", z3.Not(in_range) if len_ok else z3.BoolVal(True))],
                          observe={}, inputs=inputs)
        obl = [("constructed only when in range", z3.And(in_range, z3.BoolVal(len_ok)))]
        ok_shape = isinstance(pkt, lib.RawPacketData) and len(pkt) == 6 + n
        obl.append(("packet is header + data", bool(ok_shape)))
        if ok_shape:
            hdr = z3.Concat(*[bv.byte_term(x) for x in pkt.items[:6]])
            want = z3.Concat(*([z3.Extract(w - 1, 0, vals[f]) for f, w in FIELDS] + [z3.BitVecVal(n - 1, 16)]))
            obl.append(("header layout", hdr == want))
            same_data = all((a is b) or (isinstance(a, int) and isinstance(b, int) and a == b) or
                            (not isinstance(a, int) and not isinstance(b, int) and z3.eq(a, b)) for a, b in zip(pkt.items[6:], data.items))
            obl.append(("data appended unchanged", bool(same_data)))
            for f, w in FIELDS:
                got = getattr(pkt, f)
                gt = got.t if isinstance(got, bv.SymInt) else z3.BitVecVal(got, W)
                obl.append((f"accessor {f}", gt == vals[f]))
            dl = pkt.data_length
            obl.append(("data_length", (dl == n - 1) if isinstance(dl, int) else False))
            hv = pkt.header_values
            obl.append(("header_values arity", len(hv) == 7))
        return result("constructed", obl, observe={"header": bv.SymBytes(pkt.items[:6]), "header_values": list(pkt.header_values),
                                                   "total_len": len(pkt)}, inputs=inputs)


PRE = [[], [("int", 3)], [("int", 16)], [("bytes", 8), ("int", 5)], [("int", 48)], [("int", "all")], [("bytes", "all")]]


class Accessors(Harness):
    kind = "accessors"

    def run(self, ctx):
        lib = self.lib
        W = bv.W
        n = self.job["params"]["n"]
        buf = bv.fresh_bytes("P", n)
        raw = lib.RawPacketData(buf)
        obl = []
        # the accessors are evaluated on a fresh packet, or for the first time AFTER the packet has been (partly or wholly) read
        pre = PRE[ctx.choose("pre", len(PRE))] if self.job["params"].get("pre") else None
        exc = None
        if pre is not None:
            for op, k in pre:
                k = 8 * n if k == "all" else k
                if k > 8 * n:
                    continue
                (raw.read_as_int if op == "int" else raw.read_as_bytes)(k)
        pos0 = raw.pos
        try:
            hv = raw.header_values
        except Exception as e:      # noqa: BLE001 - library outcome
            return result("exc", [("accessors raise nothing", False)], observe={"exc": type(e).__name__}, inputs={"buf": buf, "pre": pre})
        for (f, w), got in zip(FIELDS, hv):
            gt = got.t if isinstance(got, bv.SymInt) else z3.BitVecVal(got, W)
            obl.append((f"accessor {f}", gt == z3.ZeroExt(W - w, layout_bits(buf.items, START[f], w))))
            g2 = getattr(raw, f)
            obl.append((f"accessor {f} attribute == tuple entry", g2 is got or (isinstance(g2, bv.SymInt) and z3.eq(g2.t, gt))))
        obl.append(("data_length", hv[6] == n - 7 if isinstance(hv[6], int) else False))
        obl.append(("cursor untouched by the accessors", raw.pos == pos0))
        return result("ok", obl, observe={"header_values": list(hv)}, inputs={"buf": buf, "pre": pre})


class Twin(Construct):
    def run(self, ctx):
        r = super().run(ctx)
        r.obligations = [("reachability twin", z3.BoolVal(False))]
        return r


def make(job):
    if job["h"] == "reframe":
        from checks import c02
        return c02.make(job)
    lib = bv.install(job.get("width", 128))
    h = {"construct": Construct, "accessors": Accessors, "twin": Twin}[job["h"]](job)
    h.lib = lib
    return h


def jobs(tier):
    q = tier == "quick"
    out = []
    for n in META["bounds"][tier]["data lengths"]:
        out.append({"name": f"construct-n{n}", "h": "construct", "params": {"n": n}, "width": 128 if q else 192,
                    "must_reach": ["ValueError"] + (["constructed"] if 1 <= n <= 65536 else [])})
    for n in META["bounds"][tier]["converse buffers"]:
        out.append({"name": f"accessors-n{n}", "h": "accessors", "params": {"n": n}, "must_reach": ["ok"]})
        out.append({"name": f"accessors-after-reads-n{n}", "h": "accessors", "params": {"n": n, "pre": True}, "width": max(128, 8 * n + 64), "must_reach": ["ok"]})
    from checks import c02
    out += c02.reframe_jobs(tier)
    return out


def vacuity_jobs():
    return [{"name": "twin-construct", "h": "twin", "params": {"n": 2}}]


def concrete(req):
    from space_packet_parser import packets
    from spv.obs import enc_concrete
    i = req["input"]
    if req["kind"] == "construct":
        n = i["data_len"]
        head, tail = bytes.fromhex(i["data_head"]["hex"]), bytes.fromhex(i["data_tail"]["hex"])
        data = (head + tail)[:n] if n <= 8 and n < 4 else None
        if n <= 16:
            # small data: head = first 4, tail = last 4 (overlapping); rebuild any consistent content
            data = bytearray(n)
            data[:min(4, n)] = head[:n]
            if n >= 4:
                data[-4:] = tail
            data = bytes(data)
        else:
            data = head + bytes([0x5A]) * (n - 8) + tail
        try:
            pkt = packets.create_ccsds_packet(data, **{f: i[f] for f, _ in FIELDS})
        except ValueError:
            return {"cls": "ValueError"}
        except Exception as e:   # noqa: BLE001
            return {"cls": type(e).__name__}
        return {"cls": "constructed", "header": enc_concrete(bytes(pkt[:6])), "header_values": enc_concrete(list(pkt.header_values)),
                "total_len": len(pkt), "data_ok": bytes(pkt[6:]) == data}
    if req["kind"] == "accessors":
        raw = packets.RawPacketData(bytes.fromhex(i["buf"]["hex"]))
        for op, k in i.get("pre") or []:
            k = 8 * len(raw) if k == "all" else k
            if k <= 8 * len(raw):
                (raw.read_as_int if op == "int" else raw.read_as_bytes)(k)
        try:
            hv = list(raw.header_values)
            # the single-field accessors evaluated AFTER the tuple (same order as the symbolic harness)
            return {"cls": "ok", "header_values": enc_concrete(hv), "attributes": enc_concrete([getattr(raw, f) for f, _ in FIELDS] + [raw.data_length])}
        except Exception as e:   # noqa: BLE001
            return {"cls": "ok", "exc": type(e).__name__}
    from checks import c02
    return c02.concrete(req)


def judge(req, got):
    """Independent concrete oracle: the CCSDS layout computed with string formatting."""
    if got.get("cls") in ("WORKER-ERROR", "WORKER-DIED"):
        return "error", str(got)[:300]
    i = req["input"]
    if req["kind"] == "construct":
        n = i["data_len"]
        ok = all(0 <= i[f] < (1 << w) for f, w in FIELDS) and 1 <= n <= 65536
        if not ok:
            return ("not-reproduced", "rejected as required") if got["cls"] == "ValueError" else ("reproduced", f"out-of-range input {i} gave {got['cls']}")
        if got["cls"] != "constructed":
            return "reproduced", f"in-range input {i} gave {got['cls']}"
        bits = "".join(f"{i[f]:0{w}b}" for f, w in FIELDS) + f"{n - 1:016b}"
        want = int(bits, 2).to_bytes(6, "big").hex()
        if got["header"] != {"hex": want}:
            return "reproduced", f"header {got['header']} != layout {want} for {i}"
        if got["header_values"] != [i[f] for f, _ in FIELDS] + [n - 1]:
            return "reproduced", f"accessors {got['header_values']} != given values for {i}"
        if got["total_len"] != 6 + n or not got.get("data_ok", True):
            return "reproduced", "data not appended unchanged"
        return "not-reproduced", "agrees with the layout oracle"
    if req["kind"] == "accessors":
        buf = bytes.fromhex(i["buf"]["hex"])
        bits = "".join(f"{b:08b}" for b in buf)
        want = [int(bits[START[f]:START[f] + w], 2) for f, w in FIELDS] + [len(buf) - 7]
        after = f" after reads {i['pre']}" if i.get("pre") else ""
        if got.get("header_values") == want and got.get("attributes") != want:
            return "reproduced", f"after header_values has been read the single-field accessors return {got.get('attributes')} instead of {want} on {buf.hex()}{after}"
        return ("not-reproduced", "agrees") if got.get("header_values") == want else ("reproduced", f"accessors {got.get('header_values') or got.get('exc')} != {want} on {buf.hex()}{after}")
    from checks import c02
    return c02.judge(req, got)


def finding_key(f, req, got):
    import re
    return "C13:" + re.sub(r"\d+", "", f["label"])
