"""C01 - end-to-end decoding conforms to the XTCE document for every stream (programs x inputs).

See checks/e2e.py (harness) and checks/templates.py (the listed template family).  The quantifier over documents is
covered by the listed templates only; the quantifier over streams is decided by the solver within the length bounds.
"""
from checks import e2e
from checks.e2e import concrete, judge, make  # noqa: F401

META = {
    "level": "model_checking",
    "claim": "For each listed template document (the deterministic mixed-feature family MIXk - every combination step of 17 field kinds with three "
             "criteria forms and two-way inheritance - and 6 hand-written templates covering unaligned integers after dynamic-length binaries, calibrated and raw "
             "length references with linear adjustment, strings with leading size / terminator / fixed size, enumerations, booleans, scaled times, "
             "IEEE 16/32/64 and MIL-1750A in both byte orders, default + context calibrators, Comparison / ComparisonList / nested "
             "BooleanExpression criteria on header and user data including value 0, nested containers reused twice, abstract dead ends, ambiguity; "
             "plus the bundled JPSS documents) and streams of 1-2 packets (thorough: up to 3) of the clean length and +-1 byte with every bit "
             "symbolic and both generator options symbolic, z3 proves on every explored path that the real packet_generator yields exactly what "
             "the independent Spec-XTCE reference prescribes: same packets in order, same parameter names in order, same value, raw value and "
             "value class per item, same cursor; undefined packets skipped or reported with their partial data; nothing else.",
    "trusted": "z3; BV proxies and the struct.unpack / bytes.decode function symbols; Spec-XTCE (my reading of XTCE and of the property, DESIGN.md "
               "Appendix A); every path cross-validated against the unpatched generator on a concrete witness",
    "bounds": {"quick": {"templates": ["T1", "T3", "T4", "T6", "JPSS", "MIX0..MIX16 (mixed-feature family: 17 field kinds x criteria forms)"], "packets per stream": "1 (2 for T4)", "lengths": "clean, and clean-1 for T1",
                         "entry points": "generator over bytes; generator over a file object read in chunks of 7 / 5 bytes with a 4-byte record prefix; root container named at load time / in the generator call (R|: root renamed); parse_ccsds_packet called directly"},
               "thorough": {"templates": ["T1", "T2", "T3", "T4", "T5", "T6", "JPSS", "JPSS_CONTRIVED", "MIX0..MIX101"], "packets per stream": "1-3",
                            "lengths": "clean-1, clean, clean+1"}},
    "stubs": ["struct.unpack and bytes.decode uninterpreted", "warnings.warn recorded", "enumeration dict lookup by a symbolic key = first equal key"],
    "outside_claim": ["documents outside the listed template family", "packets longer than the bound", "float rounding; NaN/inf in comparisons",
                      "values of little-endian integer fields that are not whole bytes"],
    "assumptions": ["packets in the stream are well-formed CCSDS packets (length fields concrete and consistent)"],
}

finding_key = e2e.finding_key("C01")


def J(name, template, lens, split=16, chunk=30, must=(), flagsets=None, **extra):
    p = {"template": template, "lens": lens}
    p.update(extra)
    if flagsets is not None:
        p["flagsets"] = flagsets
    return {"name": name, "h": "e2e", "params": p, "split": split, "chunk": chunk, "max_paths": 300000, "must_reach": list(must)}


def jobs(tier):
    if tier == "quick":
        return [
            J("T1-19", "T1", [19], flagsets=[1, 2]),
            J("T3-16", "T3", [16], flagsets=[3]),
            J("T4-9-10", "T4", [9, 10], flagsets=[0, 3]),
            J("T6-12", "T6", [12], flagsets=[1, 2]),
            J("JPSS-71", "JPSS", [71], flagsets=[0, 3]),
            J("T8-8-8", "T8", [8, 8], flagsets=[3]),          # two packets through one definition: a parameter whose derived TYPE varies per packet
            # other public entry points: root container named at load time / in the generator call; parse_ccsds_packet called directly
            J("R|T4-9-load", "R|T4", [9], flagsets=[3], root_mode="load"), J("R|T4-10-gen", "R|T4", [10], flagsets=[0], root_mode="gen"),
            J("T4-9-10-file-r7-skip4", "T4", [9, 10], flagsets=[3], source="file", read=7, skip=4), J("T4-10-9-file-r5", "T4", [10, 9], flagsets=[0], source="file", read=5),
            J("T4-10-direct", "T4", [10], flagsets=[3], via="direct"), J("R|T6-12-direct-gen", "R|T6", [12], flagsets=[3], via="direct", root_mode="gen"),
        ] + [J(f"MIX{k}-12", f"MIX{k}", [12], flagsets=[1, 2], split=4) for k in range(17)]
    out = []
    for t, clean in (("T1", 19), ("T2", 18), ("T3", 16), ("T5", 9), ("T6", 12)):
        for d in (-1, 0, 1):
            out.append(J(f"{t}-{clean + d}", t, [clean + d]))
    out += [J("T4-9", "T4", [9]), J("T4-10", "T4", [10]), J("T4-9-10", "T4", [9, 10]), J("T4-10-9-10", "T4", [10, 9, 10], flagsets=[0, 3]),
            J("T6-12-12", "T6", [12, 12], flagsets=[1, 2]), J("JPSS-71", "JPSS", [71]), J("JPSS-71-71", "JPSS", [71, 71], flagsets=[3]),
            J("JPSSC-71", "JPSS_CONTRIVED", [71])]
    out += [J(f"MIX{k}-{n}", f"MIX{k}", [n], split=4) for k in range(102) for n in ((12,) if k % 3 else (11, 12, 13))]
    out += [J(f"T4-9-10-9-file-r{r}-skip{k}", "T4", [9, 10, 9], flagsets=[3], source="file", read=r, skip=k) for r, k in ((7, 4), (1, 2), (20, 4), (16, 10), (None, 3), (5, 0))]
    out += [J("T6-12-12-file-r8-skip3", "T6", [12, 12], flagsets=[0, 3], source="file", read=8, skip=3), J("T4-9-10-skip5", "T4", [9, 10], flagsets=[3], skip=5)]
    out += [J("R|T4-9-10-load", "R|T4", [9, 10], root_mode="load"), J("R|T4-10-9-gen", "R|T4", [10, 9], root_mode="gen"), J("R|T6-12-gen", "R|T6", [12], root_mode="gen"),
            J("T4-9-10-direct", "T4", [9, 10], flagsets=[3], via="direct"), J("T6-12-direct", "T6", [12], flagsets=[3], via="direct"),
            J("R|T6-12-direct-gen", "R|T6", [12], flagsets=[3], via="direct", root_mode="gen"), J("T1-19-direct", "T1", [19], flagsets=[3], via="direct"),
            J("R|JPSS-71-load", "R|JPSS", [71], flagsets=[3], root_mode="load")]
    out += [J("T8-8-8", "T8", [8, 8]), J("T8-8-9-8", "T8", [8, 9, 8], flagsets=[3]), J("B|lookup|0-14-14", "B|lookup|0", [14, 14], flagsets=[1]),
            J("MIX17-12-12", "MIX17", [12, 12], flagsets=[3]), J("MIX12-12-12", "MIX12", [12, 12], flagsets=[3])]
    return out


def vacuity_jobs():
    return [{"name": "twin-T6", "h": "twin", "params": {"template": "T6", "lens": [12], "flagsets": [3]}, "max_paths": 20}]
