"""C16 - loading is independent of lexical spelling and of earlier loads (configurations x histories).

Real code executed: XtcePacketDefinition.from_xtce and every from_xml reader, NamespaceAwareElement (class-level namespace map /
prefix, element_prefix, add_namespace_to_xpath, find / findall / iterfind).
Configuration variables decided by the executor (ctx.choose, all values explored): namespace convention (prefix 'xtce', prefixes of other
names including names that are themselves the beginning of an XTCE element name, default namespace, no namespace); lexical variant (as is, inter-element whitespace everywhere, a comment at ONE
inter-element position - every position of the document -, comments at all positions at once); history of up to two prior loads
from an alphabet of five (another document in each convention, a malformed document, a document that fails half-way through).
Oracle: an independent structural snapshot (namespace bookkeeping fields excluded, since they record the spelling) must equal the
snapshot of the canonical spelling loaded FIRST in a FRESH process.
"""
import hashlib
import io
import json
import os
import subprocess
import sys

import z3

from checks import templates, xmlvar
from spv import structural
from spv.harness import Harness, result

TEMPLATES = ["T1", "T2", "T3", "T6"]
HIST_ALPHABET = ["other-default-ns", "other-prefix-q7", "other-no-ns", "malformed", "fails-half-way"]

META = {
    "level": "model_checking",
    "claim": "For each listed template (together containing every list-valued element kind: entry lists, comparison lists, enumeration lists, spline "
             "points, polynomial terms, discrete lookup lists, context calibrator lists, nested boolean expressions), every namespace convention, "
             "every single inter-element comment position of the document, comments everywhere, whitespace everywhere, and every history of up to "
             "two prior loads from the alphabet (quick tier: a coprime stride of this product; thorough: all of it), the loaded definition is "
             "structurally identical to the one obtained from the canonical spelling loaded first in a fresh process.  The pure-Python XPath "
             "prefixing is additionally checked against a regular-expression reference for every path literal the library uses.",
    "trusted": "lxml / libxml2; the structural snapshot; the renderings are produced with plain lxml (checks/xmlvar.py)",
    "bounds": {"quick": {"templates": TEMPLATES + ["T4", "JPSS (stride 101)"], "product": "9 conventions (prefix xtce / q7 / Unit / P / SequenceContainer / xtce-1.2 / omg.xtce_v2, default namespace, none) x (3 + #gaps) lexical variants x 31 histories, stride 11"},
               "thorough": {"templates": TEMPLATES + ["T4", "T5", "JPSS"], "product": "complete for T1, T2, T6; stride 5 for the others"}},
    "stubs": ["none (lxml runs natively; the executor only picks configuration points)"],
    "outside_claim": ["comments / whitespace INSIDE text-carrying leaf elements", "processing instructions, CDATA, entity tricks", "histories longer than two loads",
                      "concurrent loads from several threads"],
    "assumptions": [],
    "explanation": "configuration-space exhaustive (or strided) exploration; no packet data",
}


def other_doc(kind):
    xml, _, _ = templates.get("T6")
    if kind == "other-default-ns":
        return xmlvar.render(xml, "default-ns")
    if kind == "other-prefix-q7":
        return xmlvar.render(xml, "prefix-q7")
    if kind == "other-no-ns":
        return xmlvar.render(xml, "no-ns")
    if kind == "malformed":
        return b"<xtce:SpaceSystem xmlns:xtce='u'><xtce:TelemetryMetaData>", "xtce"
    x, p = xmlvar.render(xml, "default-ns")
    return x.replace(b'parameterRef="EC"', b'parameterRef="NO_SUCH_PARAMETER"', 1), p


def histories():
    out = [()]
    out += [(a,) for a in HIST_ALPHABET]
    out += [(a, b) for a in HIST_ALPHABET for b in HIST_ALPHABET]
    return out


def variant(xml, conv, lex):
    doc, prefix = xmlvar.render(xml, conv)
    if lex == 0:
        return doc, prefix, "as is"
    if lex == 1:
        return xmlvar.with_whitespace(doc), prefix, "whitespace between all elements"
    gaps = xmlvar.gap_positions(xmlvar.canonical_root(doc))
    if lex == 2:
        return xmlvar.with_comments(doc, gaps), prefix, "comments at every inter-element position"
    g = gaps[lex - 3]
    els = [e for e in xmlvar.canonical_root(doc).iter() if isinstance(e.tag, str)]
    return xmlvar.with_comments(doc, [g]), prefix, f"comment in <{xmlvar.L(els[g[0]].tag)}> at child slot {g[1]}"


def load_snapshot(doc, prefix):
    from space_packet_parser.xtce import definitions
    d = definitions.XtcePacketDefinition.from_xtce(io.BytesIO(doc), xtce_ns_prefix=prefix)
    s = structural.definition_snapshot(d, skip_namespace=True)
    return structural.to_jsonable(s)


def digest(j):
    return hashlib.sha256(json.dumps(j, sort_keys=True).encode()).hexdigest()[:20]


_canon_cache = {}


def canonical_digest(template):
    """snapshot digest of the canonical spelling, loaded first in a fresh interpreter"""
    if template not in _canon_cache:
        root = os.path.dirname(os.path.dirname(os.path.abspath(__file__)))
        env = dict(os.environ, PYTHONPATH=root)
        out = subprocess.run([sys.executable, "-c", "import sys; from checks import c16; c16._print_canon(sys.argv[1])", template],
                             capture_output=True, text=True, env=env, cwd=root, timeout=120)
        if out.returncode != 0:
            raise RuntimeError("canonical load failed: " + out.stderr[-400:])
        _canon_cache[template] = out.stdout.strip().splitlines()[-1]
    return _canon_cache[template]


def _print_canon(template):
    xml, _, _ = templates.get(template)
    doc, prefix = xmlvar.render(xml, "prefix-xtce")
    print(digest(load_snapshot(doc, prefix)))


def run_sequence(template, conv, lex, hist):
    from space_packet_parser.xtce import definitions
    xml, _, _ = templates.get(template)
    for h in hist:
        doc, prefix = other_doc(h)
        try:
            definitions.XtcePacketDefinition.from_xtce(io.BytesIO(doc), xtce_ns_prefix=prefix)
        except Exception:    # noqa: BLE001,S110 - prior loads may fail by design
            pass
    doc, prefix, desc = variant(xml, conv, lex)
    try:
        snap = load_snapshot(doc, prefix)
    except Exception as e:   # noqa: BLE001
        return "exc:" + type(e).__name__, None, desc
    return "loaded", digest(snap), desc


class Spelling(Harness):
    kind = "spelling"

    def run(self, ctx):
        p = self.job["params"]
        t = p["template"]
        xml, _, _ = templates.get(t)
        ngaps = len(xmlvar.gap_positions(xmlvar.canonical_root(xml)))
        H = histories()
        NC = len(xmlvar.CONVENTIONS)
        total = NC * (3 + ngaps) * len(H)
        stride, phase = p.get("stride", 1), p.get("phase", 0)
        k = ctx.choose("point", (total + stride - 1) // stride) * stride + phase % stride
        k = min(k, total - 1)
        conv = xmlvar.CONVENTIONS[k % NC]
        k //= NC
        lex = k % (3 + ngaps)
        hist = H[k // (3 + ngaps)]
        outcome, dg, desc = run_sequence(t, conv, lex, hist)
        want = canonical_digest(t)
        obl = [(f"loads ({conv}; {desc}; after {list(hist)})", outcome == "loaded"),
               (f"same definition as the canonical spelling loaded first ({conv}; {desc}; after {list(hist)})", dg == want)]
        return result(outcome, obl, observe={"outcome": outcome, "digest": dg, "cls": "ran"},
                      inputs={"template": t, "conv": conv, "lex": lex, "hist": list(hist), "desc": desc})


class XPath(Harness):
    """add_namespace_to_xpath against a regular-expression reference, for every path literal used by the library"""
    kind = "xpath"

    def run(self, ctx):
        import re
        from space_packet_parser import common
        paths = self.job["params"]["paths"]
        i = ctx.choose("path", len(paths))
        PRE = [None, "xtce", "q7", "Unit", "P", "SequenceContainer"]
        prefix = PRE[ctx.choose("prefix", len(PRE))]
        cls = common.NamespaceAwareElement
        saved = (cls._nsmap, cls._ns_prefix)
        try:
            cls.set_ns_prefix(prefix)
            cls.set_nsmap({prefix: xmlvar.URI} if prefix else {None: xmlvar.URI})
            got = cls.add_namespace_to_xpath(paths[i])
        finally:
            cls._nsmap, cls._ns_prefix = saved
        pre = f"{prefix}:" if prefix else ""
        want = re.sub(r"(?<![@\w:.(\[='])([A-Za-z_][\w]*)(?![\w(:])(?=(/|$|\[))", lambda m: pre + m.group(1), paths[i])
        return result("ok", [(f"xpath {paths[i]!r} prefix {prefix!r}: {got!r} == {want!r}", got == want)], observe={"got": got, "cls": "ran"},
                      inputs={"path": paths[i], "prefix": prefix})


class Twin(Spelling):
    def run(self, ctx):
        r = super().run(ctx)
        r.obligations = [("reachability twin", z3.BoolVal(False))]
        return r


def library_xpaths():
    """every string literal passed to find / findall / iterfind in the library source (read from /repo on every run)"""
    import ast
    import glob
    out = set()
    for f in glob.glob(os.environ.get("VERIF_REPO", "/repo") + "/space_packet_parser/**/*.py", recursive=True):
        tree = ast.parse(open(f).read())
        for node in ast.walk(tree):
            if isinstance(node, ast.Call) and isinstance(node.func, ast.Attribute) and node.func.attr in ("find", "findall", "iterfind") and node.args:
                a = node.args[0]
                if isinstance(a, ast.Constant) and isinstance(a.value, str):
                    out.add(a.value)
                elif isinstance(a, ast.JoinedStr):
                    s = "".join(v.value if isinstance(v, ast.Constant) else "X" for v in a.values)
                    out.add(s)
    return sorted(out)


def make(job):
    from spv import bv, lia
    bv.uninstall()
    lia.uninstall()
    return {"spelling": Spelling, "xpath": XPath, "twin": Twin}[job["h"]](job)


def jobs(tier):
    seed = int(os.environ.get("VERIF_SEED", "0") or 0)
    out = []
    if tier == "quick":
        for t in TEMPLATES + ["T4", "JPSS"]:
            out.append({"name": f"spelling-{t}", "h": "spelling", "params": {"template": t, "stride": 11 if t != "JPSS" else 101, "phase": seed}, "split": 64, "chunk": 60, "max_paths": 400000,
                        "must_reach": ["loaded"]})
    else:
        for t in TEMPLATES + ["T4", "T5", "JPSS"]:
            out.append({"name": f"spelling-{t}", "h": "spelling", "params": {"template": t, "stride": 1 if t in ("T1", "T2", "T6") else 5, "phase": seed},
                        "split": 64, "chunk": 100, "max_paths": 1000000, "must_reach": ["loaded"]})
    out.append({"name": "xpath", "h": "xpath", "params": {"paths": library_xpaths()}, "split": 16, "chunk": 60, "must_reach": ["ok"]})
    return out


def vacuity_jobs():
    return [{"name": "twin", "h": "twin", "params": {"template": "T6", "stride": 997}, "max_paths": 10}]


def concrete(req):
    i = req["input"]
    if req["kind"] == "xpath":
        from space_packet_parser import common
        cls = common.NamespaceAwareElement
        saved = (cls._nsmap, cls._ns_prefix)
        try:
            cls.set_ns_prefix(i["prefix"])
            cls.set_nsmap({i["prefix"]: xmlvar.URI} if i["prefix"] else {None: xmlvar.URI})
            return {"cls": "ran", "got": cls.add_namespace_to_xpath(i["path"])}
        finally:
            cls._nsmap, cls._ns_prefix = saved
    outcome, dg, desc = run_sequence(i["template"], i["conv"], i["lex"], tuple(i["hist"]))
    return {"cls": "ran", "outcome": outcome, "digest": dg}


def judge(req, got):
    if got.get("cls") in ("WORKER-ERROR", "WORKER-DIED", "TIMEOUT"):
        return "error", str(got)[:300]
    i = req["input"]
    if req["kind"] == "xpath":
        return "reproduced", f"add_namespace_to_xpath({i['path']!r}) with prefix {i['prefix']!r} gave {got.get('got')!r}"
    want = canonical_digest(i["template"])
    where = f"template {i['template']}, {i['conv']}, {i['desc']}, after prior loads {i['hist']}"
    if got["outcome"] != "loaded":
        return "reproduced", f"{where}: load failed with {got['outcome']}"
    if got["digest"] != want:
        return "reproduced", f"{where}: definition differs from the canonical spelling loaded first in a fresh process"
    return "not-reproduced", "same definition"


def finding_key(f, req, got):
    i = req.get("input", {})
    if req.get("kind") == "spelling" and "ContextCalibratorList" in i.get("desc", "") and str(got.get("outcome", "")).startswith("exc:AttributeError"):
        return "C16:comment-inside-ContextCalibratorList"
    if req.get("kind") == "spelling":
        import re
        return f"C16:{i.get('conv')}:{re.sub(r'slot [0-9]+', 'slot', i.get('desc', ''))}:{got.get('outcome')}"
    return f"C16:xpath:{i.get('path')}"
