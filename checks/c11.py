"""C11 - packets are parsed independently; generators and definitions do not interfere (histories x schedules).

Three harnesses on the real packet_generator (BV back end):
  stream       checks/e2e.py: 3-packet streams (thorough: 4) mixing recognisable, unrecognisable and wrong-length packets as SYMBOLIC
               outcomes, all four option combinations; expected result per packet from Spec-XTCE applied to that packet alone.
  independent  the same stream run, then every packet parsed ALONE through a second, freshly loaded definition object: the items of
               stream position i must be term-for-term the items of the solitary parse (implementation against itself, so no oracle
               is involved), and a deep structural snapshot of the definition taken before parsing must equal the one taken after.
  interleave   two generators created from ONE definition over two different streams, advanced in a symbolic schedule (every
               interleaving of their next() calls); results must equal those of running them one after the other on a fresh definition.
"""
import io

import z3

from checks import e2e, templates
from checks.e2e import concrete, judge  # noqa: F401
from spv import bv, specxtce, structural
from spv.harness import result

META = {
    "level": "model_checking",
    "claim": "For 3-packet streams (thorough: also 4) over two templates whose packets' contents are symbolic - so that 'recognised', "
             "'unrecognised', 'length-mismatched' and 'fails' are all outcomes the solver chooses per packet - and all four combinations of "
             "parse_bad_pkts / yield_unrecognized_packet_errors, z3 proves that what the generator yields at stream position i is term-for-term "
             "what parsing packet i alone with a freshly loaded definition yields (and what Spec-XTCE prescribes for that packet alone), that "
             "error objects appear in position with their partial data, that the definition's object graph is structurally unchanged by "
             "parsing, and that two generators sharing one definition advanced in every interleaving of their next() calls produce exactly the "
             "results of running them sequentially.",
    "trusted": "as C01; the structural snapshot (spv/structural.py) as the notion of 'definition unchanged'",
    "bounds": {"quick": {"stream": "T4 [9,10,9], T6 [12,11,12]", "independent": "T4 [9,10,9]", "interleave": "2 generators x 2 packets, 6 schedules", "headers only": "T4 [9,10,8] x 4 option combinations"},
               "thorough": {"stream": "T4 [9,10,9,10], T6 [12,11,12], T5 [9,8,9]", "independent": "T4 [10,9,10], T6 [12,12,11]",
                            "interleave": "2 generators x 3 packets, 20 schedules"}},
    "stubs": ["as C01"],
    "outside_claim": ["more generators / longer streams than the bound", "threads (the library is single-threaded code; interleaving is at next() granularity)"],
    "assumptions": [],
}

finding_key = e2e.finding_key("C11")


def term_same(a, b):
    """two implementation values are the same term / object"""
    if type(a).__name__ != type(b).__name__:
        return False
    if isinstance(a, bv.SymInt):
        return a.t == b.t
    if isinstance(a, bv.SymReal):
        return a.t == b.t
    if isinstance(a, bv.SymBytes):
        if len(a.items) != len(b.items):
            return False
        return z3.And([bv.byte_term(x) == bv.byte_term(y) for x, y in zip(a.items, b.items)] + [z3.BoolVal(True)])
    if isinstance(a, bv.SymStr):
        if a.is_concrete() or b.is_concrete():
            return a.v == b.v
        return a.v[1] == b.v[1] and len(a.v[2]) == len(b.v[2]) and z3.And([bv.byte_term(x) == bv.byte_term(y) for x, y in zip(a.v[2], b.v[2])] + [z3.BoolVal(True)])
    return a == b


def run_gen(gen, limit):
    ys, end = [], "stop"
    try:
        for y in gen:
            ys.append(y)
            if len(ys) > limit:
                end = "extra"
                break
    except Exception as e:    # noqa: BLE001 - library outcome
        end = "exc:" + type(e).__name__
    return ys, end


def items_of(y):
    pkt = y.partial_data if isinstance(y, Exception) else y
    return None if pkt is None else list(pkt.items())


class Independent(e2e.E2E):
    kind = "e2e"

    def concretize(self, model, res):
        req = super().concretize(model, res)
        req["check_definition_unchanged"] = True
        return req

    def run(self, ctx):
        res = super().run(ctx)
        p = self.job["params"]
        lens = p["lens"]
        parse_bad, yield_unrec = res.inputs["parse_bad"], res.inputs["yield_unrec"]
        stream = res.inputs["stream"]
        # recover the stream-run yields per input index from the observables
        by_index = {y["i"]: y for y in res.observe["yields"] if y["i"] is not None}
        died = res.observe["end"].startswith("exc")
        n_seen = len(res.observe["yields"])
        obl = list(res.obligations)
        off, skip = 0, p.get("skip", 0)
        for i, Lb in enumerate(lens):
            alone = bv.SymBytes(stream.items[off + skip:off + skip + Lb])        # the packet itself (without its record prefix), from a bytes source
            off += skip + Lb
            kw = {"root_container_name": templates.root_of(p["template"])} if p.get("root_mode") == "gen" else {}
            ys, end = run_gen(self.defn2.packet_generator(alone, parse_bad_pkts=parse_bad, yield_unrecognized_packet_errors=yield_unrec, **kw), 2)
            mine = by_index.get(i)
            if end.startswith("exc"):
                # a packet that fails alone ends the stream at its position: nothing at or after i is yielded
                obl.append((f"pkt{i}: fails alone => stream ends there", died and mine is None and all(j < i for j in by_index)))
                break
            if len(ys) == 0:
                obl.append((f"pkt{i}: not yielded alone => not yielded in the stream", mine is None))
                continue
            y = ys[0]
            obl.append((f"pkt{i}: yielded alone => yielded in the stream at its position", mine is not None))
            if mine is None:
                continue
            kind = "error" if isinstance(y, Exception) else "packet"
            obl.append((f"pkt{i}: same kind alone and in the stream", mine["kind"] == kind))
            a_items = items_of(y)
            s_items = mine["items"]
            ok_names = a_items is not None and s_items is not None and [n for n, _ in a_items] == [x[0] for x in s_items]
            obl.append((f"pkt{i}: same parameter names alone and in the stream", ok_names))
            if ok_names:
                for (n, av), (_, sv, sraw, scls) in zip(a_items, s_items):
                    obl.append((f"pkt{i}.{n}: same value alone and in the stream", term_same(av, sv)))
                    obl.append((f"pkt{i}.{n}: same raw value alone and in the stream", term_same(getattr(av, "raw_value", None), sraw)))
        after = structural.public_state(self.defn)
        obl.append(("definition unchanged by parsing (XML and public attributes)", after == self.snap_before))
        res.obligations = obl
        return res


class Interleave(e2e.E2E):
    """two generators from one definition, symbolic schedule"""
    kind = "interleave"

    def run(self, ctx):
        p = self.job["params"]
        lens = p["lens"]
        n = len(lens)
        # all interleavings of n + 1 next() calls per generator (the last one observes StopIteration)
        scheds = _interleavings(n + 1, n + 1)
        sched = scheds[ctx.choose("schedule", len(scheds))]
        flags = ctx.choose("flags", 2)
        parse_bad, yield_unrec = bool(flags), True
        streams = []
        for g in range(2):
            items = []
            for i, Lb in enumerate(lens):
                bs = [z3.BitVec(f"g{g}p{i}_{j}", 8) for j in range(Lb)]
                bs[4], bs[5] = (Lb - 7) >> 8, (Lb - 7) & 0xFF
                for j in p.get("concrete_bytes", []):
                    if j < Lb and j not in (4, 5):
                        bs[j] = (17 * (g + 1) + 3 * i + j) & 0xFF if j > 1 else 0
                if "apid" in p and (g + i) % 2 == 0:       # every other packet is of the APID the template defines
                    bs[0], bs[1] = p["apid"] >> 8, p["apid"] & 0xFF
                items += bs
            streams.append(bv.SymBytes(items))
        gens = [self.defn.packet_generator(s, parse_bad_pkts=parse_bad, yield_unrecognized_packet_errors=yield_unrec) for s in streams]
        got = [[], []]
        done = [None, None]
        for g in sched:
            if done[g] is not None:
                continue
            try:
                got[g].append(next(gens[g]))
            except StopIteration:
                done[g] = "stop"
            except Exception as e:    # noqa: BLE001
                done[g] = "exc:" + type(e).__name__
        # sequential reference on a fresh definition
        ref = []
        for g in range(2):
            ys, end = run_gen(self.defn2.packet_generator(streams[g], parse_bad_pkts=parse_bad, yield_unrecognized_packet_errors=yield_unrec), n + 1)
            ref.append((ys, end))
        obl = []
        for g in range(2):
            ys, end = ref[g]
            obl.append((f"gen{g}: same number of items interleaved and sequential", len(got[g]) == len(ys)))
            obl.append((f"gen{g}: same end interleaved and sequential", (done[g] or "running") == end or (done[g] is None and end == "stop" and len(got[g]) == len(ys))))
            for k, (a, b) in enumerate(zip(got[g], ys)):
                ia, ib = items_of(a), items_of(b)
                same_kind = isinstance(a, Exception) == isinstance(b, Exception)
                obl.append((f"gen{g} item {k}: same kind", same_kind))
                okn = ia is not None and ib is not None and [x for x, _ in ia] == [x for x, _ in ib]
                obl.append((f"gen{g} item {k}: same names", okn))
                if okn:
                    for (nm, va), (_, vb) in zip(ia, ib):
                        obl.append((f"gen{g} item {k}.{nm}: same value", term_same(va, vb)))
        obl.append(("definition unchanged by parsing (XML and public attributes)", structural.public_state(self.defn) == self.snap_before))
        observe = {"cls": "ran", "counts": [len(got[0]), len(got[1])],
                   "items": [[[[nm, v] for nm, v in (items_of(y) or [])] for y in got[g]] for g in range(2)]}
        return result(f"{len(got[0])}+{len(got[1])}", obl, observe=observe,
                      inputs={"streams": streams, "schedule": list(sched), "parse_bad": parse_bad, "template": p["template"], "lens": list(lens)})


def _interleavings(a, b):
    out = []

    def rec(x, y, cur):
        if x == 0 and y == 0:
            out.append(tuple(cur))
            return
        if x:
            rec(x - 1, y, cur + [0])
        if y:
            rec(x, y - 1, cur + [1])
    rec(a, b, [])
    return out


class HeadersOnly(e2e.E2E):
    """ccsds_headers_only=True under every combination of the other options: the items are exactly the raw packets of the stream, in order,
    whatever the definition would make of them (recognized or not, right length or not); nothing is warned about, nothing is parsed"""
    kind = "headers-only"

    def run(self, ctx):
        p = self.job["params"]
        flags = ctx.choose("flags", 4)
        parse_bad, yield_unrec = bool(flags & 1), bool(flags & 2)
        stream, pk = self.build_stream(p["lens"])
        ys, end = run_gen(self.defn.packet_generator(stream, parse_bad_pkts=parse_bad, yield_unrecognized_packet_errors=yield_unrec, ccsds_headers_only=True),
                          len(pk) + 1)
        obl = [("generator ends normally", end == "stop"), ("one item per packet", len(ys) == len(pk)), ("no warnings", not ctx.warnings)]
        for i, (y, q) in enumerate(zip(ys, pk)):
            ok = isinstance(y, self.lib.RawPacketData) and len(y.items) == q["len"]
            obl.append((f"item {i} is the raw packet {i}", ok and z3.And([bv.byte_term(a) == bv.byte_term(b) for a, b in zip(y.items, q["items"])])))
        obl.append(("definition unchanged by parsing (XML and public attributes)", structural.public_state(self.defn) == self.snap_before))
        return result("raw" * len(pk), obl, observe={"items": [bv.SymBytes(y.items) for y in ys if hasattr(y, "items")], "end": end, "cls": "ran"},
                          inputs={"stream": stream, "parse_bad": parse_bad, "yield_unrec": yield_unrec, "template": p["template"], "lens": list(p["lens"])})


def make(job):
    p = job["params"]
    xml, clean, _ = templates.get(p["template"])
    lib = bv.install(max(128, 8 * max(p["lens"]) + 64))
    cls = {"e2e": e2e.E2E, "independent": Independent, "interleave": Interleave, "headers-only": HeadersOnly, "twin": e2e.Twin}[job["h"]]
    h = cls(job)
    h.lib = lib
    h.defn = bv.symbolize_definition(e2e.load_defn(lib.definitions, xml, p))
    h.defn2 = bv.symbolize_definition(e2e.load_defn(lib.definitions, xml, p))
    h.snap_before = structural.public_state(h.defn)
    h.spec = specxtce.Spec(xml, root=templates.root_of(p["template"]))
    return h


def J(h, name, template, lens, flagsets=(0, 1, 2, 3), split=16, chunk=25, **extra):
    p = {"template": template, "lens": lens, "flagsets": list(flagsets)}
    p.update(extra)
    return {"name": name, "h": h, "params": p, "split": split, "chunk": chunk, "max_paths": 400000}


def jobs(tier):
    if tier == "quick":
        return [J("e2e", "stream-T6", "T6", [12, 11, 12], flagsets=(0, 3)), J("independent", "indep-T8", "T8", [8, 8, 8], flagsets=(3,)),
                J("independent", "indep-T4", "T4", [9, 10, 9], flagsets=(1, 2)),
                J("independent", "indep-T4-file-r7-skip4", "T4", [9, 10, 9], flagsets=(3,), source="file", read=7, skip=4),
                # MANY packets in one stream (13, eleven of them of the wrong length in a row): the n-th packet is treated like the first
                J("independent", "indep-TI-many", "TI", [10] * 11 + [9, 10], flagsets=(0, 1)),
                # the root container named in the generator call only: naming it must not change the definition (nor a later default-root generator)
                J("independent", "indep-R|T4-gen", "R|T4", [9, 10], flagsets=(3,), root_mode="gen"),
                J("interleave", "interleave-T6", "T6", [12, 12], concrete_bytes=[0, 6, 7, 8, 9, 10], apid=6), J("headers-only", "headers-only-T4", "T4", [9, 10, 8])]
    return [J("e2e", "stream-T4", "T4", [9, 10, 9, 10], flagsets=(0, 3)), J("e2e", "stream-T6", "T6", [12, 11, 12]), J("e2e", "stream-T5", "T5", [9, 8, 9], flagsets=(0, 1)),
            J("independent", "indep-T4", "T4", [10, 9, 10]), J("independent", "indep-T8", "T8", [8, 8, 8]), J("independent", "indep-Blookup", "B|lookup|0", [14, 14], flagsets=(1,)), J("independent", "indep-T6", "T6", [12, 12, 11], flagsets=(0, 3)),
            J("interleave", "interleave-T6", "T6", [12, 12, 12], concrete_bytes=[0, 6, 7, 8, 9, 10], apid=6),
            J("interleave", "interleave-T4", "T4", [9, 10], concrete_bytes=[0, 2, 3]),
            J("independent", "indep-T4-file-r7-skip4", "T4", [9, 10, 9], flagsets=(0, 3), source="file", read=7, skip=4),
            J("independent", "indep-TI-many", "TI", [10] * 11 + [9, 10] + [8] * 3, flagsets=(0, 1, 2, 3)),
            J("independent", "indep-R|T4-gen", "R|T4", [9, 10], flagsets=(0, 3), root_mode="gen"),
            J("independent", "indep-T6-file-r16-skip10", "T6", [12, 12], flagsets=(3,), source="file", read=16, skip=10), J("headers-only", "headers-only-T4", "T4", [9, 10, 8, 11]),
            J("headers-only", "headers-only-T6", "T6", [12, 7])]


def vacuity_jobs():
    return [{"name": "twin-T6", "h": "twin", "params": {"template": "T6", "lens": [12], "flagsets": [3]}, "max_paths": 20}]


# ------------------------------------------------------------------------------------------------- concrete side
_e2e_concrete = e2e.concrete
_e2e_judge = e2e.judge


def concrete(req):     # noqa: F811
    if req["kind"] == "headers-only":
        from space_packet_parser.xtce import definitions
        i = req["input"]
        xml, _, _ = templates.get(i["template"])
        d = definitions.XtcePacketDefinition.from_xtce(io.BytesIO(xml))
        stream = bytes.fromhex(i["stream"]["hex"])
        import warnings
        with warnings.catch_warnings(record=True) as rec:
            warnings.simplefilter("always")
            ys, end = run_gen(d.packet_generator(stream, parse_bad_pkts=i["parse_bad"], yield_unrecognized_packet_errors=i["yield_unrec"], ccsds_headers_only=True),
                              len(i["lens"]) + 1)
        return {"cls": "ran", "items": [{"hex": bytes(y).hex()} for y in ys], "end": end, "nwarn": len(rec)}
    if req["kind"] != "interleave":
        return _e2e_concrete(req)
    from space_packet_parser.xtce import definitions
    from spv.obs import enc_concrete
    i = req["input"]
    xml, _, _ = templates.get(i["template"])
    d = definitions.XtcePacketDefinition.from_xtce(io.BytesIO(xml))
    snap0 = structural.public_state(d)
    streams = [bytes.fromhex(s["hex"]) for s in i["streams"]]
    import warnings
    with warnings.catch_warnings():
        warnings.simplefilter("ignore")
        gens = [d.packet_generator(s, parse_bad_pkts=i["parse_bad"], yield_unrecognized_packet_errors=True) for s in streams]
        got, done = [[], []], [None, None]
        for g in i["schedule"]:
            if done[g] is not None:
                continue
            try:
                got[g].append(next(gens[g]))
            except StopIteration:
                done[g] = "stop"
            except Exception as e:   # noqa: BLE001
                done[g] = "exc:" + type(e).__name__

    def enc(v):
        if isinstance(v, bool) or type(v).__name__ == "BoolParameter" or isinstance(v, int):
            return int(v)
        if isinstance(v, float):
            return enc_concrete(float(v))
        if isinstance(v, str):
            return str(v)
        return enc_concrete(bytes(v))
    items = [[[[nm, enc(v)] for nm, v in ((y.partial_data if isinstance(y, Exception) else y) or {}).items()] for y in got[g]] for g in range(2)]
    return {"cls": "ran", "counts": [len(got[0]), len(got[1])], "items": items, "definition_changed": structural.public_state(d) != snap0}


def judge(req, got):      # noqa: F811
    if req["kind"] == "headers-only":
        if got.get("cls") != "ran":
            return "error", str(got)[:300]
        i = req["input"]
        stream, want, o = bytes.fromhex(i["stream"]["hex"]), [], 0
        for n in i["lens"]:
            want.append({"hex": stream[o:o + n].hex()})
            o += n
        if got["end"] != "stop" or got["items"] != want or got["nwarn"]:
            return "reproduced", (f"ccsds_headers_only=True, parse_bad_pkts={i['parse_bad']}, yield_unrecognized={i['yield_unrec']} on template {i['template']} stream "
                                  f"{stream.hex()}: expected the raw packets {[w['hex'] for w in want]} and no warning; got {[g['hex'] for g in got['items']]} end {got['end']} warnings {got['nwarn']}")
        return "not-reproduced", "raw packets in order"
    if req["kind"] != "interleave":
        return _e2e_judge(req, got)
    # replay oracle: the same streams run sequentially on a fresh definition
    seq = concrete({**req, "input": {**req["input"], "schedule": [0] * 8 + [1] * 8}})
    if got.get("cls") != "ran":
        return "error", str(got)[:300]
    if got.get("definition_changed"):
        return "reproduced", f"parsing (schedule {req['input']['schedule']}) modified the definition object graph"
    if seq["items"] != got["items"]:
        return "reproduced", f"schedule {req['input']['schedule']}: interleaved results {str(got['items'])[:300]} differ from sequential {str(seq['items'])[:300]}"
    return "not-reproduced", "interleaved == sequential"
