#!/usr/bin/env python3
"""Regenerate the tables of DESIGN.md section 9 from /verif/seeded/*/meta.json and /verif/seeded/selftest.json."""
import re as _re
EQUIV = set(_re.findall(r'"(m\w+)"', _re.search(r'EQUIVALENT = \{([^}]*)\}', open('/verif/tools/selftest.py').read()).group(1)))
import glob, json, os, re
V = os.path.dirname(os.path.dirname(os.path.abspath(__file__)))
rows = []
for f in sorted(glob.glob(os.path.join(V, "seeded", "*", "meta.json"))):
    m = json.load(open(f))
    notes = os.path.join(os.path.dirname(f), "notes.md")
    needs = m.get("needs_to_manifest") or ""
    if not needs and os.path.exists(notes):
        txt = open(notes).read()
        needs = " ".join(txt.split())[:220]
    checks = ", ".join(f"{c} exit {v['exit']}" for c, v in m.get("checks", {}).items())
    rows.append(f"| {m['id']} | {m['property']} | {'yes' if m.get('confirmed') else 'NO'} | {', '.join(m.get('caught_by', [])) or '-'} | {checks} | {needs.replace('|', '/')} |")
tab = "| seed | property | confirmed (suite passes, demo fails with / passes without) | caught by | check runs | what it needs to manifest |\n|---|---|---|---|---|---|\n" + "\n".join(rows)
st = ""
p = os.path.join(V, "seeded", "selftest.json")
if os.path.exists(p):
    s = json.load(open(p))
    lines = []
    for k, v in sorted(s.items()):
        if "error" in v:
            lines.append(f"| {k} | {v['check']} | {v['file']} | pattern not found | | |")
            continue
        edit = (v['old'].strip().splitlines()[0][:60] + " -> " + v['new'].strip().splitlines()[0][:60]).replace("|", "/")
        lines.append(f"| {k} | {v['check']} | `{edit}` | {'VIOLATION' if v['check_exit'] == 1 else 'inconclusive' if v['check_exit'] == 2 else ('holds - equivalent w.r.t. the property (see tools/selftest.py)' if k in EQUIV else 'MISSED')} | {v.get('suite', '-')} |")
    killed = sum(1 for v in s.values() if v.get("check_exit") == 1)
    st = f"\n\n{killed} of {len(s)} hand-written mutants are reported as VIOLATION by the check of their property, {len([k for k in s if k in EQUIV and s[k]['check_exit'] != 1])} are equivalent w.r.t. the property (tools/selftest.py):\n\n| mutant | check | edit (first line) | check verdict | pinned test suite |\n|---|---|---|---|---|\n" + "\n".join(lines)
d = open(os.path.join(V, "DESIGN.md")).read()
a, b = "<!-- SEED-TABLE-BEGIN -->", "<!-- SEED-TABLE-END -->"
assert a in d and b in d
d = d[:d.index(a) + len(a)] + "\n" + tab + st + "\n" + d[d.index(b):]
open(os.path.join(V, "DESIGN.md"), "w").write(d)
print(len(rows), "seeds")
