"""Spec-XTCE: an independent reference decoder for the supported XTCE subset (DESIGN.md Appendix A).

It reads the XML *text* with plain lxml (not the library's loader, so loader defaults are checked too) and produces,
directly as z3 terms over the packet bytes, the list (name, value, raw value, value class) that XTCE semantics prescribe.
Where the prescribed outcome depends on symbolic values (criteria, enumeration labels, dynamic sizes, terminators) it
forks in the current path context.  It is deliberately written in a different shape from the implementation: per-bit
extraction from one packet word, offsets instead of cursors moving through buffers.
"""
from fractions import Fraction

import lxml.etree as ET
import z3

from . import bv
from .engine import Ctx


def L(tag):
    return ET.QName(tag).localname


def kids(el, name=None):
    return [c for c in el if isinstance(c.tag, str) and (name is None or L(c.tag) == name)]


def kid(el, name):
    k = kids(el, name)
    return k[0] if k else None


def path(el, *names):
    for n in names:
        if el is None:
            return None
        el = kid(el, n)
    return el


def R(x):
    return bv.real_of(x) if not z3.is_expr(x) else x


class Unrecognized(Exception):
    def __init__(self, st):
        self.st = st


class SpecError(Exception):
    """the document demands an error outcome for this packet (CalibrationError, ValueError, overread ...)"""
    def __init__(self, kind, st=None):
        self.kind = kind
        self.st = st


class Val:
    """kind: int | float | bool | bytes | str
       t:  BV(W) term | Real term | BV(W) term (0/1) | list of 8-bit terms | ('label', text) / ('decode', codec, [8-bit terms])
       nb: magnitude bound (bits) for int kinds, used to keep bv2int narrow"""
    def __init__(self, kind, t, raw=None, nb=None):
        self.kind, self.t, self.nb = kind, t, nb
        self.raw = raw if raw is not None else self


OPMAP = {"eq": "==", "neq": "!=", "lt": "<", "gt": ">", "leq": "<=", "geq": ">=", "&lt;": "<", "&gt;": ">", "&lt;=": "<=", "&gt;=": ">="}


class Spec:
    def __init__(self, xml_bytes, root="CCSDSPacket"):
        r = ET.fromstring(xml_bytes)
        tm = kid(r, "TelemetryMetaData")
        self.types = {t.get("name"): t for t in kids(kid(tm, "ParameterTypeSet"))}
        self.params = {p.get("name"): p for p in kids(kid(tm, "ParameterSet"))}
        self.conts = {}
        for c in kids(kid(tm, "ContainerSet")):
            self.conts.setdefault(c.get("name"), c)
        self.root = root

    # ---------------------------------------------------------------- bits
    @staticmethod
    def field(word, nbytes, p, n):
        """unsigned value of bits [p, p+n) as an n-bit term (None for n == 0)"""
        if n == 0:
            return None
        hi = 8 * nbytes - 1 - p
        return z3.Extract(hi, hi - n + 1, word)

    @staticmethod
    def wide(t, n, signed=False):
        W = bv.W
        if t is None:
            return z3.BitVecVal(0, W)
        return (z3.SignExt if signed else z3.ZeroExt)(W - n, t)

    # ---------------------------------------------------------------- criteria
    def sel(self, items, name, calibrated, cur=None):
        if name in items:
            v = items[name]
            if v is None:
                raise SpecError("unspecified-operand")
            return v if calibrated else v.raw
        if cur is not None:
            return cur
        raise SpecError("ref-missing")

    @staticmethod
    def num(v):
        if v.kind in ("int", "bool"):
            return ("int", v.t, v.nb)
        if v.kind == "float":
            return ("real", v.t, None)
        raise SpecError("non-numeric-compare")

    @staticmethod
    def relation(op, a, b):
        ka, ta, na = a
        kb, tb, nb_ = b
        if ka == "real" or kb == "real":
            ta = bv.bv2real(ta, na) if ka == "int" else ta
            tb = bv.bv2real(tb, nb_) if kb == "int" else tb
        op = OPMAP.get(op, op)
        return {"==": ta == tb, "!=": ta != tb, "<": ta < tb, ">": ta > tb, "<=": ta <= tb, ">=": ta >= tb}[op]

    @staticmethod
    def literal(text, like):
        if like[0] == "int":
            try:
                v = int(text)
            except ValueError:
                raise SpecError("ComparisonError") from None
            return ("int", z3.BitVecVal(v, bv.W), bv.bits_of(v))
        try:
            return ("real", R(float(text)), None)
        except ValueError:
            raise SpecError("ComparisonError") from None

    def comparison(self, el, items, cur=None):
        v = self.num(self.sel(items, el.get("parameterRef"), el.get("useCalibratedValue", "true").lower() == "true", cur))
        return self.relation(el.get("comparisonOperator", "=="), v, self.literal(el.get("value"), v))

    def condition(self, el, items):
        refs = kids(el, "ParameterInstanceRef")
        op = kid(el, "ComparisonOperator").text
        g = lambda r: self.num(self.sel(items, r.get("parameterRef"), r.get("useCalibratedValue", "true").lower() == "true"))
        a = g(refs[0])
        b = g(refs[1]) if len(refs) == 2 else self.literal(kid(el, "Value").text, a)
        return self.relation(op, a, b)

    def group(self, el, items):
        parts = [self.condition(c, items) for c in kids(el, "Condition")]
        parts += [self.group(c, items) for c in kids(el, "ANDedConditions")] + [self.group(c, items) for c in kids(el, "ORedConditions")]
        return z3.And(parts + [z3.BoolVal(True)]) if L(el.tag) == "ANDedConditions" else z3.Or(parts + [z3.BoolVal(False)])

    def match(self, el, items, cur=None):
        """el contains Comparison | ComparisonList | BooleanExpression"""
        if (c := kid(el, "ComparisonList")) is not None:
            return z3.And([self.comparison(x, items, cur) for x in kids(c)] + [z3.BoolVal(True)])
        if (c := kid(el, "Comparison")) is not None:
            return self.comparison(c, items, cur)
        if (c := kid(el, "BooleanExpression")) is not None:
            if (x := kid(c, "Condition")) is not None:
                return self.condition(x, items)
            return self.group(kids(c)[0], items)
        return z3.BoolVal(True)

    # ---------------------------------------------------------------- calibrators
    def calibrate(self, cal, r, st):
        ctx = Ctx.cur
        if L(cal.tag) == "PolynomialCalibrator":
            acc = z3.RealVal(0)
            for t in kids(cal):
                term = R(float(t.get("coefficient")))
                for _ in range(int(t.get("exponent"))):
                    term = term * r
                acc = acc + term
            return acc
        pts = sorted((Fraction(float(p.get("raw"))), Fraction(float(p.get("calibrated")))) for p in kids(cal))
        order = int(cal.get("order", "0"))
        ex = cal.get("extrapolate", "false").lower() == "true"
        q = lambda f: z3.RealVal(f"{f.numerator}/{f.denominator}")
        lin = lambda a, b: q(a[1]) + q((b[1] - a[1]) / (b[0] - a[0])) * (r - q(a[0]))
        if ctx.fork(r < q(pts[0][0])):
            if not ex:
                raise SpecError("CalibrationError", st)
            return q(pts[0][1]) if order == 0 else lin(pts[0], pts[1])
        if ctx.fork(r > q(pts[-1][0])):
            if not ex:
                raise SpecError("CalibrationError", st)
            return q(pts[-1][1]) if order == 0 else lin(pts[-2], pts[-1])
        for j in range(len(pts) - 1):
            if ctx.fork(r < q(pts[j + 1][0])):
                return q(pts[j][1]) if order == 0 else lin(pts[j], pts[j + 1])
        return q(pts[-1][1])

    @staticmethod
    def default_cal(enc):
        d = kid(enc, "DefaultCalibrator")
        return kids(d)[0] if d is not None else None

    # ---------------------------------------------------------------- sizes
    def dyn_size(self, dv, items, st):
        ref = kid(dv, "ParameterInstanceRef")
        v = self.sel(items, ref.get("parameterRef"), ref.get("useCalibratedValue", "true").lower() == "true")
        k, t, nb = self.num(v)
        adj = kid(dv, "LinearAdjustment")
        c = Ctx.cur
        if k == "real":
            if adj is not None:
                t = R(int(adj.get("slope", 0))) * t + R(int(adj.get("intercept", 0)))
                if not c.fork(z3.IsInt(t)):
                    raise SpecError("unspecified", st)         # non-integral adjusted size: the properties make no statement
                return c.pick(z3.ToInt(t))
            # without an adjustment the size is the integer part (documented: int(value))
            return c.pick(bv.trunc_int(t))
        if adj is not None:
            t = z3.BitVecVal(int(adj.get("slope", 0)), bv.W) * t + z3.BitVecVal(int(adj.get("intercept", 0)), bv.W)
        return c.pick(t)          # concrete size on this path

    def lookup_size(self, lst, items, st):
        for dl in kids(lst):
            if Ctx.cur.fork(self.match(dl, items)):
                return int(float(dl.get("value")))
        raise SpecError("unspecified", st)                     # no lookup entry matches: the properties make no statement

    # ---------------------------------------------------------------- one parameter
    def find_encoding(self, pt):
        for e in pt.iter():
            if isinstance(e.tag, str) and L(e.tag) in ("IntegerDataEncoding", "FloatDataEncoding", "StringDataEncoding", "BinaryDataEncoding"):
                return e
        raise SpecError("no-encoding")

    def decode(self, pname, word, nbytes, pos, st):
        items = st["items"]
        W = bv.W
        pt = self.types[self.params[pname].get("parameterTypeRef")]
        kind = L(pt.tag)
        enc = self.find_encoding(pt)
        en = L(enc.tag)
        over = lambda w: pos + w > 8 * nbytes
        c = Ctx.cur
        if en in ("IntegerDataEncoding", "FloatDataEncoding"):
            n = int(enc.get("sizeInBits"))
            lsb = enc.get("byteOrder", "mostSignificantByteFirst") == "leastSignificantByteFirst"
            if over(n) or n < 0:
                raise SpecError("overread", st)
            u = self.field(word, nbytes, pos, n)
            if en == "IntegerDataEncoding":
                if lsb:
                    if n % 8:
                        return None, n          # the property makes no statement about the value
                    bs = [z3.Extract(8 * i + 7, 8 * i, u) for i in range(n // 8)]
                    u = z3.Concat(*bs) if len(bs) > 1 else bs[0]
                signed = enc.get("encoding", "unsigned") != "unsigned"
                raw = Val("int", self.wide(u, n, signed), nb=n)
                rr = bv.bv2real(raw.t, n)
            else:
                e = enc.get("encoding", "IEEE754")
                if e.startswith("IEEE"):
                    fmt = ("<" if lsb else ">") + {16: "e", 32: "f", 64: "d"}[n]
                    rr = bv.unpack_fn(fmt, n // 8)(u)
                else:
                    v = u
                    if lsb:
                        v = z3.Concat(z3.Extract(7, 0, v), z3.Extract(15, 8, v), z3.Extract(23, 16, v), z3.Extract(31, 24, v))
                    M = z3.BV2Int(z3.Extract(31, 8, v), True)
                    E = c.pick(z3.SignExt(W - 8, z3.Extract(7, 0, v)))
                    rr = z3.ToReal(M) * R(Fraction(2) ** (E - 23))
                raw = Val("float", rr)
            dcal = self.default_cal(enc)
            tcal = None
            if kind in ("AbsoluteTimeParameterType", "RelativeTimeParameterType"):
                E_ = kid(pt, "Encoding")
                if E_ is not None and ("scale" in E_.attrib or "offset" in E_.attrib):
                    tcal = (float(E_.get("offset", 0)), float(E_.get("scale", 1)))
            if kind == "EnumeratedParameterType":
                for en_ in kids(kid(pt, "EnumerationList")):
                    if raw.kind == "int":
                        hit = raw.t == z3.BitVecVal(int(en_.get("value")), W)
                    else:
                        hit = raw.t == R(float(en_.get("value")))
                    if c.fork(hit):
                        return Val("str", ("label", en_.get("label")), raw), n
                raise SpecError("ValueError", st)
            if kind == "BooleanParameterType":
                truth = raw.t != (0 if raw.kind == "int" else z3.RealVal(0))
                return Val("bool", z3.If(truth, z3.BitVecVal(1, W), z3.BitVecVal(0, W)), raw, nb=1), n
            ccl = kid(enc, "ContextCalibratorList")
            if ccl is not None:
                for cc in kids(ccl):
                    if c.fork(self.match(kid(cc, "ContextMatch"), items, cur=raw)):
                        return Val("float", self.calibrate(kids(kid(cc, "Calibrator"))[0], rr, st), raw), n
            if tcal is not None:
                return Val("float", R(tcal[0]) + R(tcal[1]) * rr, raw), n
            if dcal is not None:
                return Val("float", self.calibrate(dcal, rr, st), raw), n
            return raw, n
        # ---- binary
        if en == "BinaryDataEncoding":
            sib = kid(enc, "SizeInBits")
            if (x := kid(sib, "FixedValue")) is not None:
                w = int(x.text)
            elif (x := kid(sib, "DynamicValue")) is not None:
                w = self.dyn_size(x, items, st)
            else:
                w = self.lookup_size(kid(sib, "DiscreteLookupList"), items, st)
            if w < 0 or over(w):
                raise SpecError("overread", st)
            nb = (w + 7) // 8
            u = self.field(word, nbytes, pos, w)
            if nb:
                u = z3.ZeroExt(8 * nb - w, u) if 8 * nb > w else u
            bs = [z3.Extract(8 * (nb - 1 - i) + 7, 8 * (nb - 1 - i), u) for i in range(nb)]
            v = Val("bytes", bs)
            if kind == "BooleanParameterType":
                return Val("bool", z3.BitVecVal(1 if nb else 0, W), v, nb=1), w
            return v, w
        # ---- string
        if (sib := kid(enc, "SizeInBits")) is not None:
            w = int(path(sib, "Fixed", "FixedValue").text)
            holder = sib
        else:
            holder = kid(enc, "Variable")
            if (x := kid(holder, "DynamicValue")) is not None:
                w = self.dyn_size(x, items, st)
            else:
                w = self.lookup_size(kid(holder, "DiscreteLookupList"), items, st)
        if w < 0 or over(w):
            raise SpecError("overread", st)
        pad = (-w) % 8
        nb = (w + pad) // 8
        u = self.field(word, nbytes, pos, w)
        if nb and pad:
            u = z3.Concat(u, z3.BitVecVal(0, pad))
        bs = [z3.Extract(8 * (nb - 1 - i) + 7, 8 * (nb - 1 - i), u) for i in range(nb)]
        codec = enc.get("encoding", "UTF-8")
        if codec in ("UTF-16", "UTF-32"):
            codec += "BE" if enc.get("byteOrder") != "leastSignificantByteFirst" else "LE"
        raw = Val("bytes", bs)
        if kind == "EnumeratedParameterType":
            for en_ in kids(kid(pt, "EnumerationList")):
                key = en_.get("value").encode(enc.get("encoding", "UTF-8"))
                hit = z3.And([b == k for b, k in zip(bs, key)] + [z3.BoolVal(len(key) == nb)])
                if c.fork(hit):
                    return Val("str", ("label", en_.get("label")), raw), w
            raise SpecError("ValueError", st)
        if (ls := kid(holder, "LeadingSize")) is not None:
            t = int(ls.get("sizeInBitsOfSizeTag"))
            if t > 8 * nb:
                raise SpecError("overread-inner", st)
            sv = z3.ZeroExt(W - t, z3.Extract(8 * nb - 1, 8 * nb - t, u))
            if c.fork(z3.URem(sv, z3.BitVecVal(8, W)) != 0):       # text length not whole bytes: no statement
                raise SpecError("unspecified", st)
            if c.fork(sv + t > 8 * nb):                              # text beyond the buffer: no statement
                raise SpecError("unspecified", st)
            s = c.pick(sv)
            seg = z3.Extract(8 * nb - 1 - t, 8 * nb - t - s, u) if s else None
            tb = [z3.Extract(s - 1 - 8 * i, s - 8 - 8 * i, seg) for i in range(s // 8)]
            return Val("str", ("decode", codec, tb), raw), w
        if (tc := kid(holder, "TerminationChar")) is not None:
            term = bytes.fromhex(tc.text)
            k = len(term)
            for i in range(0, nb - k + 1):
                if c.fork(z3.And([bs[i + j] == term[j] for j in range(k)])):
                    return Val("str", ("decode", codec, bs[:i]), raw), w
            raise SpecError("unspecified", st)                 # no termination character in the buffer: no statement
        return Val("str", ("decode", codec, bs), raw), w

    # ---------------------------------------------------------------- containers
    def walk(self, cname, word, nbytes, st, depth=0):
        if depth > 16:
            raise SpecError("nesting-too-deep", st)
        cont = self.conts[cname]
        st["path"].append(cname)
        for e in kids(kid(cont, "EntryList")):
            if L(e.tag) == "ContainerRefEntry":
                self.walk(e.get("containerRef"), word, nbytes, st, depth + 1)
            elif L(e.tag) == "ParameterRefEntry":
                n = e.get("parameterRef")
                v, w = self.decode(n, word, nbytes, st["pos"], st)
                st["items"][n] = v
                if n not in st["order"]:         # the packet is a mapping: a re-decoded name keeps its first position
                    st["order"].append(n)
                st["widths"].append((n, st["pos"], w))
                st["pos"] += w

    def parse(self, word, nbytes):
        st = dict(pos=0, items={}, order=[], widths=[], path=[])
        cur = self.root
        while True:
            self.walk(cur, word, nbytes, st)
            cands = []
            for name, cont in self.conts.items():
                b = kid(cont, "BaseContainer")
                if b is not None and b.get("containerRef") == cur:
                    rc = kid(b, "RestrictionCriteria")
                    if rc is None or Ctx.cur.fork(self.match(rc, st["items"])):
                        cands.append(name)
            if len(cands) == 1:
                cur = cands[0]
                continue
            if len(cands) == 0 and self.conts[cur].get("abstract", "false").lower() != "true":
                return st
            raise Unrecognized(st)
