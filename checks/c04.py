"""C04 - integer and float fields decode correctly at every size, offset and byte order.

Real code executed: ParameterType.parse_value -> IntegerDataEncoding / FloatDataEncoding.parse_value, _get_raw_value,
_twos_complement, the IEEE / MIL-STD-1750A parse functions, RawPacketData.read_as_int / read_as_bytes, _extract_bits.
The configuration (encoding, byte order, bit offset) is a picked symbolic index; every bit of the field and of the
surrounding bytes is symbolic.
"""
import z3

from spv import bv
from spv.engine import Ctx
from spv.harness import Harness, result

ENCS = ("unsigned", "signed", "twosComplement")
ORDERS = ("mostSignificantByteFirst", "leastSignificantByteFirst")

META = {
    "level": "model_checking",
    "claim": "For every integer width in the listed set (quick: 1,2,7,8,9,15,16,17,24,31,32,33,48,63,64,65,127,128; thorough: every width 1..128), all three "
             "encodings, both byte orders and all 8 bit offsets, with every bit of the field and its neighbours symbolic, z3 proves that the "
             "real decoder (also when the encoding carries a context calibrator whose context does not hold) returns the unsigned / two's-complement value of exactly the field's bits (byte-reversed for whole-byte "
             "little-endian fields), as an IntParameter whose raw_value is the value, advancing the cursor by the width. For IEEE 16/32/64 "
             "in both byte orders at all 8 offsets it proves that exactly one struct.unpack call is made with the declared format code and "
             "exactly the field's bytes in stream order; for MIL-STD-1750A that the value is M*2^(E-23) over the reals for the two's-complement "
             "24-bit mantissa and 8-bit exponent (all 256 exponents enumerated by the solver).",
    "trusted": "z3; BV proxies (every path cross-validated against the unpatched library, floats through the real struct.unpack); "
               "CPython's struct implements IEEE-754 (NaN/inf/-0/subnormals) - the check proves the right bytes reach the right format code; "
               "binary64 arithmetic for a 24-bit integer times a power of two is exact (MIL-1750A)",
    "bounds": {"quick": {"integer widths": [1, 2, 7, 8, 9, 15, 16, 17, 24, 31, 32, 33, 48, 63, 64, 65, 127, 128], "offsets": "0..7", "float": "IEEE 16/32/64, 1750A"},
               "thorough": {"integer widths": "1..128", "offsets": "0..7", "float": "IEEE 16/32/64, 1750A"}},
    "stubs": ["struct.unpack(fmt, b): uninterpreted function of (fmt, b)", "int.from_bytes / to_bytes modelled exactly"],
    "outside_claim": ["IEEE semantics of struct itself", "little-endian integer fields whose width is not a whole number of bytes (the property makes no "
                      "statement; only class and cursor are asserted)", "widths above the bound"],
    "assumptions": [],
}


def field_bits(items, p, n):
    bits = []
    for k in range(p, p + n):
        b = bv.byte_term(items[k // 8])
        bits.append(z3.Extract(7 - k % 8, 7 - k % 8, b))
    return bits[0] if n == 1 else z3.Concat(*bits)


def choose(ctx, name, n):
    return ctx.choose(name, n)


def unmatched_context(lib):
    K, C = lib.calibrators, lib.comparisons
    return [K.ContextCalibrator([C.Comparison("7", "MODE", operator="==", use_calibrated_value=False)],
                                K.PolynomialCalibrator([K.PolynomialCoefficient(1.5, 0), K.PolynomialCoefficient(2.0, 1)]))]


class IntField(Harness):
    kind = "int-field"

    def run(self, ctx):
        lib = self.lib
        W = bv.W
        w = self.job["params"]["w"]
        # the two extra dimensions (unmatched context calibrator, FloatParameterType wrapper) are explored for the quick tier's widths only
        full = w in META["bounds"]["quick"]["integer widths"]
        cfg = choose(ctx, "cfg", len(ENCS) * len(ORDERS) * 8 * (4 if full else 1))
        enc_name, order, off, ctxcal, wrap = ENCS[cfg % 3], ORDERS[(cfg // 3) % 2], (cfg // 6) % 8, bool((cfg // 48) % 2), bool(cfg // 96)
        nbytes = (off + w + 7) // 8 + 1
        buf = bv.fresh_bytes("B", nbytes)
        # ctxcal: the encoding carries a context calibrator whose context does NOT hold for this packet (and no default calibrator): the field is
        # uncalibrated and must still come out as the exact integer
        enc = lib.encodings.IntegerDataEncoding(w, enc_name, byte_order=order, context_calibrators=unmatched_context(lib) if ctxcal else None)
        # wrap: the integer encoding sits in a FloatParameterType (legal XTCE; without a calibrator the field is still an uncalibrated integer)
        ptype = (lib.parameter_types.FloatParameterType if wrap else lib.parameter_types.IntegerParameterType)("T", enc)
        packet = lib.packets.CCSDSPacket(raw_data=buf)
        packet.raw_data.pos = off
        if ctxcal:
            packet["MODE"] = lib.common.IntParameter(3)
        inputs = {"buf": buf, "w": w, "enc": enc_name, "order": order, "off": off, "ctxcal": ctxcal, "wrap": wrap}
        try:
            v = ptype.parse_value(packet)
        except Exception as e:     # noqa: BLE001 - a library outcome the property does not allow here
            return result("exc:" + type(e).__name__, [("decoding an in-bounds field raises nothing", False)], observe={}, inputs=inputs)
        u = field_bits(buf.items, off, w)
        obl = []
        ok_cls = type(v) is lib.common.IntParameter
        obl.append(("value class is IntParameter", ok_cls))
        obl.append(("cursor advanced by width", packet.raw_data.pos == off + w if isinstance(packet.raw_data.pos, int) else False))
        if ok_cls:
            assert_value = not (order == ORDERS[1] and w % 8 != 0)
            if assert_value:
                if order == ORDERS[1]:
                    by = [z3.Extract(w - 1 - 8 * i, w - 8 - 8 * i, u) for i in range(w // 8)]      # stream order
                    by.reverse()
                    u2 = by[0] if len(by) == 1 else z3.Concat(*by)
                else:
                    u2 = u
                want = z3.ZeroExt(W - w, u2) if enc_name == "unsigned" else z3.SignExt(W - w, u2)
                obl.append((f"value {enc_name} {order}", v.t == want))
            rv = v.raw_value
            obl.append(("raw_value equals value", isinstance(rv, bv.SymInt) and z3.eq(z3.simplify(rv.t), z3.simplify(v.t))))
        return result("ok", obl, observe={"value": v, "raw": getattr(v, "raw_value", None), "pos": packet.raw_data.pos, "class": type(v).__name__},
                      inputs=inputs)


PAIRS = [(16, 32), (32, 16), (8, 16), (16, 8), (24, 32), (16, 16), (8, 8)]


def int_want(buf, off, w, enc_name, order):
    u = field_bits(buf.items, off, w)
    if order == ORDERS[1]:
        by = [z3.Extract(w - 1 - 8 * i, w - 8 - 8 * i, u) for i in range(w // 8)]
        by.reverse()
        u = by[0] if len(by) == 1 else z3.Concat(*by)
    return z3.ZeroExt(bv.W - w, u) if enc_name == "unsigned" else z3.SignExt(bv.W - w, u)


class IntPair(Harness):
    """two whole-byte integer fields of possibly different widths / byte orders decoded one after the other in ONE process (separate
    encoding objects, or the same object twice when the widths agree): each value must be that of its own bits"""
    kind = "int-pair"

    def run(self, ctx):
        lib = self.lib
        cfg = choose(ctx, "cfg", len(PAIRS) * 3 * 4 * 2)
        w1, w2 = PAIRS[cfg % len(PAIRS)]
        cfg //= len(PAIRS)
        enc_name = ENCS[cfg % 3]
        cfg //= 3
        o1, o2 = ORDERS[cfg % 2], ORDERS[(cfg // 2) % 2]
        cfg //= 4
        off = (0, 3)[cfg % 2]
        same_obj = w1 == w2 and o1 == o2
        e1 = lib.encodings.IntegerDataEncoding(w1, enc_name, byte_order=o1)
        e2 = e1 if same_obj else lib.encodings.IntegerDataEncoding(w2, enc_name, byte_order=o2)
        obl, inputs = [], {"enc": enc_name, "off": off, "w1": w1, "w2": w2, "o1": o1, "o2": o2, "same_obj": same_obj}
        obs = {}
        for n, (w, order, e) in enumerate(((w1, o1, e1), (w2, o2, e2)), 1):
            buf = bv.fresh_bytes(f"B{n}_", (off + w + 7) // 8 + 1)
            inputs[f"buf{n}"] = buf
            packet = lib.packets.CCSDSPacket(raw_data=buf)
            packet.raw_data.pos = off
            try:
                v = lib.parameter_types.IntegerParameterType(f"T{n}", e).parse_value(packet)
            except Exception as ex:     # noqa: BLE001
                return result("exc:" + type(ex).__name__, [(f"field {n}: decoding an in-bounds field raises nothing", False)], observe={}, inputs=inputs)
            ok = type(v) is lib.common.IntParameter
            obl.append((f"field {n} ({w}-bit {order}): value class is IntParameter", ok))
            if ok:
                obl.append((f"field {n} ({w}-bit {order}): value of its own bits", v.t == int_want(buf, off, w, enc_name, order)))
                rv = v.raw_value
                obl.append((f"field {n}: raw_value equals value", isinstance(rv, bv.SymInt) and z3.eq(z3.simplify(rv.t), z3.simplify(v.t))))
            obs[f"value{n}"] = v
        return result("ok", obl, observe=obs, inputs=inputs)


FLOATS = [("IEEE754", 16), ("IEEE754", 32), ("IEEE754", 64), ("IEEE754_1985", 32), ("MILSTD_1750A", 32)]


class FloatField(Harness):
    kind = "float-field"

    def run(self, ctx):
        lib = self.lib
        W = bv.W
        fi = self.job["params"]["fi"]
        encoding, w = FLOATS[fi]
        cfg = choose(ctx, "cfg", 16)
        order, off = ORDERS[cfg % 2], cfg // 2
        nbytes = (off + w + 7) // 8 + 1
        buf = bv.fresh_bytes("B", nbytes)
        enc = lib.encodings.FloatDataEncoding(w, encoding=encoding, byte_order=order)
        ptype = lib.parameter_types.FloatParameterType("T", enc)
        packet = lib.packets.CCSDSPacket(raw_data=buf)
        packet.raw_data.pos = off
        inputs = {"buf": buf, "w": w, "enc": encoding, "order": order, "off": off}
        try:
            v = ptype.parse_value(packet)
        except Exception as e:     # noqa: BLE001 - a library outcome the property does not allow here
            return result("exc:" + type(e).__name__, [("decoding an in-bounds field raises nothing", False)], observe={}, inputs=inputs)
        u = field_bits(buf.items, off, w)
        obl = []
        ok_cls = type(v) is lib.common.FloatParameter
        obl.append(("value class is FloatParameter", ok_cls))
        obl.append(("cursor advanced by width", packet.raw_data.pos == off + w if isinstance(packet.raw_data.pos, int) else False))
        skip = False
        if ok_cls and encoding != "MILSTD_1750A":
            fmt = ("<" if order == ORDERS[1] else ">") + {16: "e", 32: "f", 64: "d"}[w]
            calls = ctx.notes.get("unpack_calls", [])
            obl.append(("exactly one struct.unpack call", len(calls) == 1))
            if len(calls) == 1:
                obl.append(("struct format as declared", calls[0][0] == fmt))
                obl.append(("unpack argument is the field in stream order", calls[0][1] == u))
            obl.append(("value is unpack(fmt, field bytes)", v.t == bv.unpack_fn(fmt, w // 8)(u)))
        elif ok_cls:
            if order == ORDERS[1]:
                by = [z3.Extract(31 - 8 * i, 24 - 8 * i, u) for i in range(4)]
                by.reverse()
                u = z3.Concat(*by)
            M = z3.Extract(31, 8, u)
            E = z3.Extract(7, 0, u)
            e_val = z3.BV2Int(E, True)
            # the exponent was picked on this path: read it back from the path condition
            m = ctx.model()
            e_conc = m.eval(e_val, model_completion=True).as_long()
            obl.append(("exponent determined by the path", e_val == e_conc))
            scale = bv.real_of(2.0 ** (e_conc - 23))
            obl.append(("value is M * 2^(E-23)", v.t == z3.ToReal(z3.BV2Int(M, True)) * scale))
        rv = getattr(v, "raw_value", None)
        obl.append(("raw_value equals value", isinstance(rv, bv.SymReal) and z3.eq(z3.simplify(rv.t), z3.simplify(v.t))))
        return result("ok", obl, observe={"value": v, "pos": packet.raw_data.pos, "class": type(v).__name__},
                      inputs={"buf": buf, "w": w, "enc": encoding, "order": order, "off": off})


class Twin(IntField):
    def run(self, ctx):
        r = super().run(ctx)
        r.obligations = [("reachability twin", z3.BoolVal(False))]
        return r


def make(job):
    w = job["params"].get("w", 64)
    lib = bv.install(8 * ((w + 7) // 8 + 2) + 64)
    h = {"int": IntField, "pair": IntPair, "float": FloatField, "twin": Twin}[job["h"]](job)
    h.lib = lib
    return h


def jobs(tier):
    widths = META["bounds"]["quick"]["integer widths"] if tier == "quick" else list(range(1, 129))
    out = [{"name": f"int-w{w}", "h": "int", "params": {"w": w}, "must_reach": ["ok"], "split": 12, "chunk": 12} for w in widths]
    out.append({"name": "int-pair", "h": "pair", "params": {"w": 40}, "must_reach": ["ok"], "split": 16, "chunk": 30})
    out += [{"name": f"float-{FLOATS[i][0]}-{FLOATS[i][1]}", "h": "float", "params": {"fi": i, "w": FLOATS[i][1]}, "must_reach": ["ok"],
             "split": 8, "chunk": 40} for i in range(len(FLOATS))]
    return out


def vacuity_jobs():
    return [{"name": "twin-int-w9", "h": "twin", "params": {"w": 9}}]


# ------------------------------------------------------------------------------------------------- concrete side
def concrete(req):
    from space_packet_parser import packets
    from space_packet_parser.xtce import encodings, parameter_types
    from spv.obs import enc_concrete
    i = req["input"]
    if req["kind"] == "int-pair":
        e1 = encodings.IntegerDataEncoding(i["w1"], i["enc"], byte_order=i["o1"])
        e2 = e1 if i["same_obj"] else encodings.IntegerDataEncoding(i["w2"], i["enc"], byte_order=i["o2"])
        out = {"cls": "ok"}
        for n, e in ((1, e1), (2, e2)):
            pkt = packets.CCSDSPacket(raw_data=bytes.fromhex(i[f"buf{n}"]["hex"]))
            pkt.raw_data.pos = i["off"]
            try:
                v = parameter_types.IntegerParameterType(f"T{n}", e).parse_value(pkt)
            except Exception as ex:   # noqa: BLE001
                return {"cls": type(ex).__name__}
            out[f"value{n}"] = enc_concrete(int(v)) if isinstance(v, int) else repr(v)
            out[f"raw{n}"] = enc_concrete(v.raw_value)
        return out
    buf = bytes.fromhex(i["buf"]["hex"])
    if req["kind"] == "int-field":
        class L:
            from space_packet_parser.xtce import calibrators, comparisons
        enc = encodings.IntegerDataEncoding(i["w"], i["enc"], byte_order=i["order"], context_calibrators=unmatched_context(L) if i.get("ctxcal") else None)
        pt = (parameter_types.FloatParameterType if i.get("wrap") else parameter_types.IntegerParameterType)("T", enc)
    else:
        enc = encodings.FloatDataEncoding(i["w"], encoding=i["enc"], byte_order=i["order"])
        pt = parameter_types.FloatParameterType("T", enc)
    pkt = packets.CCSDSPacket(raw_data=buf)
    pkt.raw_data.pos = i["off"]
    if i.get("ctxcal"):
        from space_packet_parser import common
        pkt["MODE"] = common.IntParameter(3)
    try:
        v = pt.parse_value(pkt)
    except Exception as e:   # noqa: BLE001
        return {"cls": type(e).__name__}
    return {"cls": "ok", "value": enc_concrete(int(v) if isinstance(v, int) else float(v)), "raw": enc_concrete(v.raw_value), "pos": pkt.raw_data.pos,
            "class": type(v).__name__}


def judge(req, got):
    """Independent concrete oracle from the bit string."""
    import math
    import struct
    if got.get("cls") in ("WORKER-ERROR", "WORKER-DIED"):
        return "error", str(got)[:300]
    i = req["input"]
    if req["kind"] == "int-pair":
        if got.get("cls") != "ok":
            return "reproduced", f"two integer fields decoded in a row: raised {got.get('cls')}"
        bad = []
        for n in (1, 2):
            buf = bytes.fromhex(i[f"buf{n}"]["hex"])
            w, off, order = i[f"w{n}"], i["off"], i[f"o{n}"]
            u = int("".join(f"{b:08b}" for b in buf)[off:off + w], 2)
            if order == ORDERS[1]:
                u = int.from_bytes(u.to_bytes(w // 8, "big"), "little")
            want = u if i["enc"] == "unsigned" or u < (1 << (w - 1)) else u - (1 << w)
            if got[f"value{n}"] != want or got[f"raw{n}"] != want:
                bad.append(f"field {n} ({w}-bit {i['enc']} {order}, offset {off}, bytes {buf.hex()}): expected {want}, got value {got[f'value{n}']} raw {got[f'raw{n}']}")
        if bad:
            return "reproduced", "two integer fields decoded one after the other in one process: " + "; ".join(bad)
        return "not-reproduced", "agrees"
    buf = bytes.fromhex(i["buf"]["hex"])
    bits = "".join(f"{b:08b}" for b in buf)
    w, off = i["w"], i["off"]
    field = bits[off:off + w]
    desc = f"{req['kind']} w={w} {i['enc']} {i['order']} offset {off} on {buf.hex()}" + (" (encoding with a context calibrator whose context does not hold)" if i.get("ctxcal") else "") + (" (integer encoding inside a FloatParameterType)" if i.get("wrap") else "")
    if got.get("cls") != "ok":
        return "reproduced", f"{desc}: raised {got.get('cls')}"
    if got["pos"] != off + w:
        return "reproduced", f"{desc}: cursor {got['pos']} != {off + w}"
    if req["kind"] == "int-field":
        if got["class"] != "IntParameter" or not isinstance(got["value"], int):
            return "reproduced", f"{desc}: value class {got['class']}"
        if i["order"] == ORDERS[1] and w % 8:
            return "not-reproduced", "no statement for non-whole-byte little-endian fields"
        u = int(field, 2)
        if i["order"] == ORDERS[1]:
            u = int.from_bytes(u.to_bytes(w // 8, "big"), "little")
        want = u if i["enc"] == "unsigned" or u < (1 << (w - 1)) else u - (1 << w)
        if got["value"] != want or got["raw"] != want:
            return "reproduced", f"{desc}: expected {want}, got value {got['value']} raw {got['raw']}"
        return "not-reproduced", "agrees"
    if got["class"] != "FloatParameter":
        return "reproduced", f"{desc}: value class {got['class']}"
    fb = int(field, 2).to_bytes(w // 8, "big")
    gv = float.fromhex(got["value"]["f"])
    if i["enc"] == "MILSTD_1750A":
        v = int.from_bytes(fb, "little" if i["order"] == ORDERS[1] else "big")
        m, e = v >> 8, v & 0xFF
        m = m - (1 << 24) if m & (1 << 23) else m
        e = e - 256 if e & 0x80 else e
        want = m * 2.0 ** (e - 23)
    else:
        fmt = ("<" if i["order"] == ORDERS[1] else ">") + {16: "e", 32: "f", 64: "d"}[w]
        want = struct.unpack(fmt, fb)[0]
    same = (math.isnan(want) and math.isnan(gv)) or (want == gv and math.copysign(1, want) == math.copysign(1, gv))
    return ("not-reproduced", "agrees") if same else ("reproduced", f"{desc}: expected {want!r}, got {gv!r}")


def finding_key(f, req, got):
    i = req.get("input", {})
    return f"C04:{req.get('kind')}:{f['label']}"
