#!/usr/bin/env python3
"""Regenerate MANIFEST.json from the check modules present under checks/ (run with /verif/.venv/bin/python)."""
import importlib, json, os, sys
V = os.path.dirname(os.path.dirname(os.path.abspath(__file__)))
sys.path.insert(0, V)
props = [json.loads(l) for l in open(os.path.join(V, "properties.jsonl"))]
NA = json.load(open(os.path.join(V, "tools", "not_applicable.json"))) if os.path.exists(os.path.join(V, "tools", "not_applicable.json")) else {}
checks, na = [], []
for p in props:
    pid = p["id"]
    path = os.path.join(V, "checks", pid.lower() + ".py")
    if pid in NA or not os.path.exists(path):
        na.append({"property_id": pid, "reason": NA.get(pid, "check not built yet in this snapshot of /verif (see DESIGN.md section 5 for the plan)")})
        continue
    m = importlib.import_module("checks." + pid.lower())
    M = m.META
    checks.append({
        "property_id": pid,
        "quick_cmd": f"./check {pid} --tier quick",
        "thorough_cmd": f"./check {pid} --tier thorough",
        "evidence_file": f"/verif/evidence/{pid}.json",
        "replay_cmd_template": f"./check {pid} --replay {{path}}",
        "engine": "spv",
        "level_claimed": {"category": M.get("level", "model_checking"), "text": M["claim"], "design_ref": M.get("design_ref", "DESIGN.md section 5, " + pid)},
        "level_note": M["trusted"],
        "technique": M.get("technique", "bounded symbolic execution of the repository's real code objects on z3-backed proxy values (path forking by re-execution); per-path obligations discharged by z3 (unsat = holds within the bounds); counterexamples replayed on the unpatched library"),
    })
man = {
    "version": 1,
    "setup_cmd": "./setup.sh",
    "hooks": {"guard": "SPACE_PACKET_PARSER_VERIF", "enable": "none needed: the checks re-host the imported library in the check process by rebinding module attributes; no source under /repo is instrumented",
              "baseline_off_cmd": "cd /repo && /venv/bin/python -m pytest -ra -q -p no:cacheprovider --timeout=900 --continue-on-collection-errors",
              "source_commits": [], "add_only": True},
    "engines": [{"name": "spv", "path": "/verif/spv", "serves_properties": [c["property_id"] for c in checks],
                 "kind_free_text": "symbolic re-hosting executor: runs /repo's real Python code objects on proxy ints/bytes/floats that carry z3 terms (BV back end for bit-level code, LIA+array views for the framing loop); forks by re-execution; z3 5.1.0 decides every branch feasibility and every obligation"}],
    "checks": checks,
    "not_applicable": na,
    "notes": "Exit codes: 0 holds within bounds, 1 VIOLATION (reproduced on the unpatched library), 2 inconclusive (never reported as success). known_findings.json lists recorded findings and fixed defects.",
}
json.dump(man, open(os.path.join(V, "MANIFEST.json"), "w"), indent=1)
print("checks:", [c["property_id"] for c in checks], "n/a:", [x["property_id"] for x in na])
