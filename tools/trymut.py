#!/usr/bin/env python3
"""tools/trymut.py <Cxx[,Cyy]> <repo-relative file> <old> <new> [--tests]: apply one textual mutation to /repo, run the checks, undo it."""
import subprocess, sys
checks, rel, old, new = sys.argv[1:5]
p = "/repo/" + rel
s = open(p).read()
assert s.count(old) >= 1, "pattern not found"
open(p, "w").write(s.replace(old, new, 1))
try:
    for c in checks.split(","):
        r = subprocess.run(["/verif/check", c], capture_output=True, text=True)
        lines = [l for l in r.stdout.splitlines() if l.startswith(("VIOLATION", "INCONCLUSIVE", "  counterexample", "KNOWN")) or "holds" in l]
        print(f"== {c} exit={r.returncode}")
        print("\n".join(l[:300] for l in lines[:4]))
    if "--tests" in sys.argv:
        r = subprocess.run("cd /repo && /venv/bin/python -m pytest -q -p no:cacheprovider -x --timeout=900 2>&1 | tail -3", shell=True, capture_output=True, text=True)
        print(r.stdout)
finally:
    subprocess.run(["git", "-C", "/repo", "checkout", "--", rel])
