"""Shared harnesses for the XML properties C09 (round trip preserves meaning) and C15 (serialization deterministic / cycle-stable).

The XML text is produced and parsed by libxml2 (C) and cannot be symbolic.  What the solver quantifies is
  (a) the CONFIGURATION SPACE: every optional attribute / flag / variant of a model class is a configuration dimension
      (checks/docgen.py); a point is picked by ctx.choose and all points are explored, and
  (b) the PACKET BITS used to compare decoding before and after the round trip (implementation against itself on
      a fully symbolic packet).
This is the weakest kind of solver verdict in this suite (path feasibility + final equalities) and is labelled as such.
"""
import io

import lxml.etree as ET
import z3

from checks import docgen, templates
from checks.c11 import term_same
from spv import bv, structural
from spv.harness import Harness, result


def canon(x):
    """snapshot with numbers normalised (an int and a float that are numerically equal are the same length / coefficient)"""
    if isinstance(x, tuple):
        if len(x) == 2 and x[0] == "float":
            return ("n", float(x[1]))
        return tuple(canon(v) for v in x)
    if isinstance(x, bool):
        return x
    if isinstance(x, int):
        return ("n", float(x))
    if isinstance(x, dict):
        return {k: canon(v) for k, v in x.items()}
    return x


def meaning(defn):
    """what C09 calls the meaning of a definition: types, parameters, containers by name (cache order is not meaning)"""
    s = structural.definition_snapshot(defn)
    return {"parameter_types": dict((k, canon(v)) for k, v in s["parameter_types"]),
            "parameters": dict((k, canon(v)) for k, v in s["parameters"]),
            "containers": dict((k, canon(v)) for k, v in s["containers"]),
            "root": defn.root_container_name}


def meaning_diff(a, b):
    out = []
    for sect in ("parameter_types", "parameters", "containers"):
        if set(a[sect]) != set(b[sect]):
            out.append(f"{sect}: names {sorted(a[sect])} != {sorted(b[sect])}")
            continue
        for k in a[sect]:
            if a[sect][k] != b[sect][k]:
                out += [f"{sect}[{k}]" + d for d in structural.diff(a[sect][k], b[sect][k], limit=2)]
    return out[:4]


def write(defn):
    return ET.tostring(defn.to_xml_tree(), pretty_print=True)


def load(lib, xml, prefix="xtce"):
    return bv.symbolize_definition(lib.definitions.XtcePacketDefinition.from_xtce(io.BytesIO(xml), xtce_ns_prefix=prefix))


def file_forms(lib, d, x1, m2, inputs):
    """the other public ways in and out: write_xml(path) must write the document to_xml_tree() gives, and from_xtce must load the same definition
    from a path given as str / as Path as from a file object.  Exercised on a rotating third of the configurations each (no new symbolic paths)."""
    import tempfile
    import zlib
    from pathlib import Path
    import json
    sel = zlib.crc32(json.dumps([inputs.get("template"), inputs.get("subject"), inputs.get("cfg")], sort_keys=True, default=str).encode()) % 3
    if sel == 0:
        return []
    obl = []
    with tempfile.TemporaryDirectory(prefix="spv_xml_") as tmp:
        path = Path(tmp) / "out.xml"
        try:
            d.write_xml(path)
            raw = path.read_bytes()
            same = ET.tostring(ET.fromstring(raw), method="c14n") == ET.tostring(ET.fromstring(x1), method="c14n")
            obl.append(("write_xml(path) writes the document to_xml_tree() gives", same))
            d3 = lib.definitions.XtcePacketDefinition.from_xtce(str(path) if sel == 1 else path, xtce_ns_prefix=d.xtce_ns_prefix)
            df = meaning_diff(m2, meaning(d3))
            obl.append((f"from_xtce({'str path' if sel == 1 else 'Path'}) loads the same definition as from a file object" + (": " + "; ".join(df) if df else ""), not df))
        except Exception as e:    # noqa: BLE001
            obl.append((f"write_xml / from_xtce(path) raise nothing ({type(e).__name__})", False))
    return obl


def parse_outcome(lib, defn, items):
    pkt = lib.packets.CCSDSPacket(raw_data=bv.SymBytes(items))
    try:
        defn.parse_ccsds_packet(pkt)
        return "ok", pkt
    except Exception as e:    # noqa: BLE001 - library outcome
        pd = getattr(e, "partial_data", None)
        return "exc:" + type(e).__name__, pd if pd is not None else pkt


def decode_obligations(lib, d1, d2, Lb, obl, tag):
    bs = [z3.BitVec(f"b{j}", 8) for j in range(Lb)]
    bs[4], bs[5] = (Lb - 7) >> 8, (Lb - 7) & 0xFF
    k1, p1 = parse_outcome(lib, d1, bs)
    k2, p2 = parse_outcome(lib, d2, bs)
    obl.append((f"{tag}: same decoding outcome", k1 == k2))
    n1, n2 = list(p1.keys()), list(p2.keys())
    obl.append((f"{tag}: same parameter names", n1 == n2))
    if n1 == n2:
        for n in n1:
            obl.append((f"{tag}: {n} same value", term_same(p1[n], p2[n])))
            obl.append((f"{tag}: {n} same raw value", term_same(getattr(p1[n], "raw_value", None), getattr(p2[n], "raw_value", None))))
    obl.append((f"{tag}: same cursor", term_same(_pos(p1), _pos(p2))))
    return bv.SymBytes(bs), k1, k2


def _pos(p):
    pos = p.raw_data.pos
    return pos if isinstance(pos, bv.SymInt) else bv.SymInt(pos)


class XmlHarness(Harness):
    """common: obtain the definition D either from objects (subject + configuration index) or from a template document"""

    def obtain(self, ctx):
        p = self.job["params"]
        lib = self.lib
        if "subject" in p:
            dims, _ = docgen.SUBJECTS[p["subject"]]
            n, stride = docgen.dims_product(dims), p.get("stride", 1)
            idx = ctx.choose("cfg", (n + stride - 1) // stride) * stride + (p.get("phase", 0) % stride)
            idx = min(idx, n - 1)
            cfg = docgen.decode_cfg(dims, idx)
            d = bv.symbolize_definition(docgen.build(lib, p["subject"], cfg))
            return d, {"subject": p["subject"], "cfg_index": idx, "cfg": {k: (list(v) if isinstance(v, tuple) else v) for k, v in cfg.items()}}, 6 + 8
        xml, clean, _ = templates.get(p["template"])
        d = load(lib, xml)
        d.date = docgen.FIXED_DATE          # the writer stamps the current time when the document has no header date
        return d, {"template": p["template"]}, clean


class RoundTrip(XmlHarness):
    kind = "roundtrip"

    def run(self, ctx):
        lib = self.lib
        d, inputs, Lb = self.obtain(ctx)
        obl = []
        m0 = meaning(d)
        try:
            x1 = write(d)
        except Exception as e:   # noqa: BLE001
            return result("write-exc:" + type(e).__name__, [("a representable definition can be written", False)], observe={"stage": "write", "exc": type(e).__name__, "cls": "ran"},
                          inputs=inputs)
        try:
            d2 = load(lib, x1, d.xtce_ns_prefix)
        except Exception as e:   # noqa: BLE001
            return result("load-exc:" + type(e).__name__, [("what the library wrote can be loaded", False)], observe={"stage": "load", "exc": type(e).__name__, "cls": "ran"},
                          inputs=inputs)
        m2 = meaning(d2)
        df = meaning_diff(m0, m2)
        obl.append(("same types, parameters and containers after write + load" + (": " + "; ".join(df) if df else ""), not df))
        obl += file_forms(lib, d, x1, m2, inputs)
        obl.append(("writing does not alter the definition", meaning(d) == m0))
        stream, k1, k2 = decode_obligations(lib, d, d2, Lb, obl, "decode")
        inputs = dict(inputs, packet=stream)
        return result(k1, obl, observe={"stage": "done", "exc": None, "cls": "ran", "xml_sha": _sha(x1), "outcome": k1, "meaning_equal": not df}, inputs=inputs)


class Stability(XmlHarness):
    kind = "stability"

    def run(self, ctx):
        lib = self.lib
        d, inputs, Lb = self.obtain(ctx)
        obl = []
        s0 = structural.definition_snapshot(d)
        try:
            g1a = write(d)
            g1b = write(d)
        except Exception as e:   # noqa: BLE001
            return result("write-exc:" + type(e).__name__, [("a representable definition can be written", False)], observe={"stage": "write", "exc": type(e).__name__, "cls": "ran"},
                          inputs=inputs)
        obl.append(("W(D) == W(D) byte for byte", g1a == g1b))
        obl.append(("writing does not alter the definition", structural.definition_snapshot(d) == s0))
        # well-formed, every element in the definition's namespace
        try:
            root = ET.fromstring(g1a)
            uri = d.xtce_schema_uri
            bad = [el.tag for el in root.iter() if isinstance(el.tag, str) and ET.QName(el).namespace != uri]
            obl.append(("every element lies in the definition's XTCE namespace" + (f": {bad[:3]}" if bad else ""), not bad))
        except ET.XMLSyntaxError:
            obl.append(("output is well-formed XML", False))
        try:
            d1 = load(lib, g1a, d.xtce_ns_prefix)
            g2 = write(d1)
            d2 = load(lib, g2, d.xtce_ns_prefix)
            g3 = write(d2)
        except Exception as e:   # noqa: BLE001
            return result("cycle-exc:" + type(e).__name__, obl + [("write/load cycles succeed", False)], observe={"stage": "cycle", "exc": type(e).__name__, "cls": "ran"},
                          inputs=inputs)
        obl.append(("G2 == G3 byte for byte" + ("" if g2 == g3 else ": " + _first_diff(g2, g3)), g2 == g3))
        return result("stable", obl, observe={"stage": "done", "exc": None, "cls": "ran", "g1_sha": _sha(g1a), "g2_sha": _sha(g2), "g3_sha": _sha(g3)}, inputs=inputs)


def _sha(b):
    import hashlib
    return hashlib.sha256(b).hexdigest()[:16]


def _first_diff(a, b):
    la, lb = a.decode().splitlines(), b.decode().splitlines()
    for i, (x, y) in enumerate(zip(la, lb)):
        if x != y:
            return f"line {i}: {x.strip()[:80]!r} vs {y.strip()[:80]!r}"
    return f"{len(la)} vs {len(lb)} lines"


class TwinRT(RoundTrip):
    def run(self, ctx):
        r = super().run(ctx)
        r.obligations = [("reachability twin", z3.BoolVal(False))]
        return r


def make(job):
    lib = bv.install(160)
    h = {"roundtrip": RoundTrip, "stability": Stability, "twin": TwinRT}[job["h"]](job)
    h.lib = lib
    return h


# ------------------------------------------------------------------------------------------------- concrete side
class _RealLib:
    def __init__(self):
        from space_packet_parser import common, packets
        from space_packet_parser.xtce import calibrators, comparisons, containers, definitions, encodings, parameter_types, parameters
        self.common, self.packets, self.calibrators, self.comparisons, self.containers = common, packets, calibrators, comparisons, containers
        self.definitions, self.encodings, self.parameter_types, self.parameters = definitions, encodings, parameter_types, parameters


def _obtain_real(i):
    lib = _RealLib()
    if "subject" in i:
        dims, _ = docgen.SUBJECTS[i["subject"]]
        return lib, docgen.build(lib, i["subject"], docgen.decode_cfg(dims, i["cfg_index"]))
    xml, _, _ = templates.get(i["template"])
    d = lib.definitions.XtcePacketDefinition.from_xtce(io.BytesIO(xml))
    d.date = docgen.FIXED_DATE
    return lib, d


def _real_parse(lib, d, data):
    import warnings
    from spv.obs import enc_concrete
    pkt = lib.packets.CCSDSPacket(raw_data=data)
    with warnings.catch_warnings():
        warnings.simplefilter("ignore")
        try:
            d.parse_ccsds_packet(pkt)
            k = "ok"
        except Exception as e:   # noqa: BLE001
            k = "exc:" + type(e).__name__
            pkt = getattr(e, "partial_data", None) or pkt
    items = []
    for n, v in pkt.items():
        base = int(v) if isinstance(v, int) else float(v) if isinstance(v, float) else str(v) if isinstance(v, str) else bytes(v)
        items.append([n, enc_concrete(base), enc_concrete(v.raw_value), type(v).__name__])
    return k, items, pkt.raw_data.pos


def concrete(req):
    i = req["input"]
    lib, d = _obtain_real(i)
    if req["kind"] in ("roundtrip", "twin"):
        m0 = meaning(d)
        try:
            x1 = write(d)
        except Exception as e:   # noqa: BLE001
            return {"cls": "ran", "stage": "write", "exc": type(e).__name__}
        try:
            d2 = lib.definitions.XtcePacketDefinition.from_xtce(io.BytesIO(x1), xtce_ns_prefix=d.xtce_ns_prefix)
        except Exception as e:   # noqa: BLE001
            return {"cls": "ran", "stage": "load", "exc": type(e).__name__}
        m2 = meaning(d2)
        df = meaning_diff(m0, m2)
        data = bytes.fromhex(i["packet"]["hex"])
        a, b = _real_parse(lib, d, data), _real_parse(lib, d2, data)
        forms = [lab for lab, ok in file_forms(lib, d, x1, m2, i) if ok is not True]
        return {"cls": "ran", "stage": "done", "exc": None, "xml_sha": _sha(x1), "outcome": a[0], "meaning_equal": not df, "meaning_diff": df,
                "decode_equal": a == b, "decode_a": a, "decode_b": b, "file_forms_failed": forms}
    s0 = structural.definition_snapshot(d)
    try:
        g1a, g1b = write(d), write(d)
    except Exception as e:   # noqa: BLE001
        return {"cls": "ran", "stage": "write", "exc": type(e).__name__}
    unchanged = structural.definition_snapshot(d) == s0
    root = ET.fromstring(g1a)
    bad = [el.tag for el in root.iter() if isinstance(el.tag, str) and ET.QName(el).namespace != d.xtce_schema_uri]
    try:
        d1 = lib.definitions.XtcePacketDefinition.from_xtce(io.BytesIO(g1a), xtce_ns_prefix=d.xtce_ns_prefix)
        g2 = write(d1)
        g3 = write(lib.definitions.XtcePacketDefinition.from_xtce(io.BytesIO(g2), xtce_ns_prefix=d.xtce_ns_prefix))
    except Exception as e:   # noqa: BLE001
        return {"cls": "ran", "stage": "cycle", "exc": type(e).__name__}
    return {"cls": "ran", "stage": "done", "exc": None, "g1_sha": _sha(g1a), "g2_sha": _sha(g2), "g3_sha": _sha(g3), "same_twice": g1a == g1b,
            "unchanged": unchanged, "foreign_elements": bad[:3], "g2_eq_g3": g2 == g3, "first_diff": "" if g2 == g3 else _first_diff(g2, g3)}


def judge(req, got):
    if got.get("cls") in ("WORKER-ERROR", "WORKER-DIED", "TIMEOUT"):
        return "error", str(got)[:300]
    i = req["input"]
    what = f"subject {i['subject']} configuration {i['cfg']}" if "subject" in i else f"template {i['template']}"
    if got["stage"] != "done":
        return "reproduced", f"{what}: {got['stage']} failed with {got['exc']}"
    if req["kind"] in ("roundtrip", "twin"):
        if not got["meaning_equal"]:
            return "reproduced", f"{what}: definition differs after write+load: {got['meaning_diff']}"
        if not got["decode_equal"]:
            return "reproduced", f"{what}: packet {i['packet']['hex']} decodes differently after the round trip: {str(got['decode_a'])[:200]} vs {str(got['decode_b'])[:200]}"
        if got.get("file_forms_failed"):
            return "reproduced", f"{what}: other I/O form fails: NOT {got['file_forms_failed'][0]}"
        return "not-reproduced", "round trip preserved the definition and the decoding of this packet"
    if not got["same_twice"]:
        return "reproduced", f"{what}: two writes of the same definition differ"
    if not got["unchanged"]:
        return "reproduced", f"{what}: writing altered the definition"
    if got["foreign_elements"]:
        return "reproduced", f"{what}: elements outside the XTCE namespace: {got['foreign_elements']}"
    if not got["g2_eq_g3"]:
        return "reproduced", f"{what}: second and third generation differ: {got['first_diff']}"
    return "not-reproduced", "stable"
