"""Definitions assembled from OBJECTS under configuration variables (the 'built the other way' half of C09 / C15).

Each SUBJECT is one model class with every optional attribute, flag and variant as a configuration dimension; the
solver-driven executor picks a point of the product (ctx.choose) and forks over all of them.  The definition around the
subject is minimal: a 7-field header in the root container and one child container holding the subject parameter(s).
"""
import itertools
import re

HDR = [("VER", 3), ("TYP", 1), ("SHF", 1), ("APID", 11), ("SEQF", 2), ("SEQC", 14), ("LEN", 16)]
FIXED_DATE = "2024-02-29T12:00:00"


def dims_product(dims):
    n = 1
    for _, opts in dims:
        n *= len(opts)
    return n


def decode_cfg(dims, index):
    cfg = {}
    for name, opts in dims:
        cfg[name] = opts[index % len(opts)]
        index //= len(opts)
    return cfg


def _cal(lib, kind):
    K = lib.calibrators
    if kind == "none":
        return None
    if kind == "poly":
        return K.PolynomialCalibrator([K.PolynomialCoefficient(-2.5, 0), K.PolynomialCoefficient(0.5, 1), K.PolynomialCoefficient(3.0, 2)])
    if kind == "poly-fine":      # coefficients that need all 17 significant digits / an exponent to survive being written and read back
        return K.PolynomialCalibrator([K.PolynomialCoefficient(0.1 + 0.2, 0), K.PolynomialCoefficient(1e-12, 1), K.PolynomialCoefficient(12345678.901234567, 2)])
    _, order, ex, *tie = kind.split("-")
    if tie:     # a step: two points with the same raw coordinate, the calibrated value stepping DOWN (stored order must survive a round trip)
        return K.SplineCalibrator([K.SplinePoint(0.0, 0.0), K.SplinePoint(10.0, 5.0), K.SplinePoint(10.0, 1.0), K.SplinePoint(20.0, 2.0)],
                                  order=int(order), extrapolate=ex == "T")
    return K.SplineCalibrator([K.SplinePoint(0.0, 1.0), K.SplinePoint(10.0, -4.5), K.SplinePoint(255.0, 7.0)], order=int(order), extrapolate=ex == "T")


def _criteria(lib, form, names=("APID", "SEQC", "TYP")):
    C = lib.comparisons
    a, b, c = names
    if form == "cmp":
        return [C.Comparison("5", a, operator="==", use_calibrated_value=True)]
    if form == "cmp-raw-leq":
        return [C.Comparison("7", a, operator="&lt;=", use_calibrated_value=False)]
    if form == "list":
        return [C.Comparison("3", a, operator=">=", use_calibrated_value=False), C.Comparison("0", c, operator="neq", use_calibrated_value=True)]
    if form == "bool-cond-value":
        return [C.BooleanExpression(C.Condition(a, "==", right_value="9", left_use_calibrated_value=False, right_use_calibrated_value=False))]
    if form == "bool-cond-param":
        return [C.BooleanExpression(C.Condition(a, "&gt;", right_param=b, left_use_calibrated_value=True, right_use_calibrated_value=False))]
    if form == "bool-and-or":
        cond1 = C.Condition(a, "<", right_value="100", left_use_calibrated_value=True, right_use_calibrated_value=False)
        cond2 = C.Condition(c, "==", right_value="0", left_use_calibrated_value=False, right_use_calibrated_value=False)
        cond3 = C.Condition(b, "geq", right_param=a, left_use_calibrated_value=False, right_use_calibrated_value=True)
        return [C.BooleanExpression(C.Anded([cond1], [C.Ored([cond2, cond3], [C.Anded([cond2], [])])]))]
    if form == "bool-or-and":
        cond1 = C.Condition(a, "!=", right_value="4", left_use_calibrated_value=True, right_use_calibrated_value=False)
        cond2 = C.Condition(b, "leq", right_value="77", left_use_calibrated_value=True, right_use_calibrated_value=False)
        return [C.BooleanExpression(C.Ored([cond1], [C.Anded([cond2, cond1], [])]))]
    raise KeyError(form)


def _ctx_cals(lib, form):
    K = lib.calibrators
    if form == "none":
        return None
    poly = K.PolynomialCalibrator([K.PolynomialCoefficient(1.0, 0), K.PolynomialCoefficient(2.0, 1)])
    spl = K.SplineCalibrator([K.SplinePoint(0.0, 0.0), K.SplinePoint(100.0, 50.0)], order=1, extrapolate=True)
    if form == "one-cmp":
        return [K.ContextCalibrator(_criteria(lib, "cmp"), poly)]
    if form == "list+bool":
        return [K.ContextCalibrator(_criteria(lib, "list"), spl), K.ContextCalibrator(_criteria(lib, "bool-and-or"), poly)]
    raise KeyError(form)


def _adjuster(lib, slope, intercept):
    """the library's own linear-adjuster closure (so that it runs on the re-hosted float / int like a loaded one)"""
    import lxml.etree as ET
    el = ET.fromstring(f'<DynamicValue><LinearAdjustment slope="{slope}" intercept="{intercept}"/></DynamicValue>')
    return lib.encodings.DataEncoding._get_linear_adjuster(el)


SUBJECTS = {}


def subject(name, dims):
    def deco(fn):
        SUBJECTS[name] = (dims, fn)
        return fn
    return deco


@subject("integer", [("size", [3, 8, 16]), ("encoding", ["unsigned", "signed", "twosComplement"]),
                     ("order", ["mostSignificantByteFirst", "leastSignificantByteFirst"]), ("default", ["none", "poly", "spline-0-F", "spline-1-T", "spline-0-T-tie", "spline-1-F-tie", "poly-fine"]),
                     ("context", ["none", "one-cmp", "list+bool"]), ("unit", [None, "m/s"])])
def _integer(lib, c):
    enc = lib.encodings.IntegerDataEncoding(c["size"], c["encoding"], byte_order=c["order"], default_calibrator=_cal(lib, c["default"]),
                                            context_calibrators=_ctx_cals(lib, c["context"]))
    return [("SUBJ", lib.parameter_types.IntegerParameterType("SUBJ_T", enc, unit=c["unit"]))]


@subject("float", [("fmt", [(16, "IEEE754"), (32, "IEEE754"), (64, "IEEE754"), (32, "IEEE754_1985"), (32, "MILSTD_1750A")]),
                   ("order", ["mostSignificantByteFirst", "leastSignificantByteFirst"]), ("default", ["none", "poly", "spline-1-F"]),
                   ("context", ["none", "one-cmp"]), ("unit", [None, "K"])])
def _float(lib, c):
    size, e = c["fmt"]
    enc = lib.encodings.FloatDataEncoding(size, encoding=e, byte_order=c["order"], default_calibrator=_cal(lib, c["default"]),
                                          context_calibrators=_ctx_cals(lib, c["context"]))
    return [("SUBJ", lib.parameter_types.FloatParameterType("SUBJ_T", enc, unit=c["unit"]))]


@subject("string", [("codec", [("UTF-8", None), ("US-ASCII", None), ("UTF-16", "mostSignificantByteFirst"), ("UTF-16", "leastSignificantByteFirst"),
                               ("UTF-16LE", None), ("UTF-32BE", None)]),
                    ("length", ["fixed", "ref-cal", "ref-raw", "ref-adj-8-0", "ref-adj-8--8", "ref-adj-1-3", "ref-adj-1-0", "ref-adj-0-24", "lookup"]),
                    ("delim", ["none", "term", "lead"]), ("unit", [None, "txt"])])
def _string(lib, c):
    codec, order = c["codec"]
    unit = 2 if "16" in codec else 4 if "32" in codec else 1
    kw = {"encoding": codec, "byte_order": order}
    ln = c["length"]
    if ln == "fixed":
        kw["fixed_raw_length"] = 16 * unit
    elif ln == "lookup":
        C = lib.comparisons
        kw["discrete_lookup_length"] = [C.DiscreteLookup([C.Comparison("1", "LENF", use_calibrated_value=False)], 16 * unit),
                                        C.DiscreteLookup([C.Comparison("2", "LENF", operator=">=", use_calibrated_value=False),
                                                          C.Comparison("9", "LENF", operator="<", use_calibrated_value=True)], 32)]
    else:
        kw["dynamic_length_reference"] = "LENF"
        kw["use_calibrated_value"] = ln != "ref-raw"
        if ln.startswith("ref-adj"):
            s, i = re.fullmatch(r"ref-adj-(-?\d+)-(-?\d+)", ln).groups()
            kw["length_linear_adjuster"] = _adjuster(lib, int(s), int(i))
            kw["use_calibrated_value"] = False
    if c["delim"] == "term":
        le = codec.endswith("LE") or order == "leastSignificantByteFirst"
        kw["termination_character"] = {1: "58", 2: "5800" if le else "0058", 4: "58000000" if le else "00000058"}[unit]
    elif c["delim"] == "lead":
        kw["leading_length_size"] = 8
    lenf = lib.parameter_types.IntegerParameterType("LENF_T", lib.encodings.IntegerDataEncoding(4, "unsigned"))
    return [("LENF", lenf), ("SUBJ", lib.parameter_types.StringParameterType("SUBJ_T", lib.encodings.StringDataEncoding(**kw), unit=c["unit"]))]


@subject("binary", [("length", ["fixed", "fixed-odd", "ref-cal", "ref-raw", "ref-adj-8-0", "ref-adj-3--2", "ref-adj-0-16", "ref-adj-1-5", "ref-adj-1-0", "ref-adj--1-12", "lookup"]),
                    ("unit", [None, "raw"])])
def _binary(lib, c):
    ln = c["length"]
    kw = {}
    if ln == "fixed":
        kw["fixed_size_in_bits"] = 16
    elif ln == "fixed-odd":
        kw["fixed_size_in_bits"] = 13
    elif ln == "lookup":
        C = lib.comparisons
        kw["size_discrete_lookup_list"] = [C.DiscreteLookup([C.Comparison("1", "LENF", use_calibrated_value=False)], 8),
                                           C.DiscreteLookup([C.Comparison("1", "LENF", operator="!=", use_calibrated_value=True)], 24)]
    else:
        kw["size_reference_parameter"] = "LENF"
        kw["use_calibrated_value"] = ln != "ref-raw"
        if ln.startswith("ref-adj"):
            s, i = re.fullmatch(r"ref-adj-(-?\d+)-(-?\d+)", ln).groups()
            kw["linear_adjuster"] = _adjuster(lib, int(s), int(i))
            kw["use_calibrated_value"] = False
    lenf = lib.parameter_types.IntegerParameterType("LENF_T", lib.encodings.IntegerDataEncoding(4, "unsigned"))
    return [("LENF", lenf), ("SUBJ", lib.parameter_types.BinaryParameterType("SUBJ_T", lib.encodings.BinaryDataEncoding(**kw), unit=c["unit"]))]


@subject("enumerated", [("enc", ["int-unsigned", "int-signed", "int-cal", "float", "string", "string-utf16-msb", "string-utf16-lsb", "string-utf32be"]),
                        ("unit", [None, "state"]), ("labels", ["abc", "neg"])])
def _enum(lib, c):
    e = c["enc"]
    if e.startswith("int"):
        enc = lib.encodings.IntegerDataEncoding(4, "signed" if e != "int-unsigned" else "unsigned", default_calibrator=_cal(lib, "poly") if e == "int-cal" else None)
        enum = {0: "ZERO", 1: "ONE", 7: "SEVEN"} if c["labels"] == "abc" or e == "int-unsigned" else {-1: "NEG", 0: "ZERO", 5: "FIVE"}
    elif e == "float":
        enc = lib.encodings.FloatDataEncoding(32)
        enum = {0.0: "ZERO", 1.5: "ONEFIVE"} if c["labels"] == "abc" else {-2.0: "NEG", 1e3: "KILO"}
    elif e == "string":
        enc = lib.encodings.StringDataEncoding(encoding="UTF-8", fixed_raw_length=16)
        enum = {b"AB": "LABEL_AB", b"ok": "LABEL_OK"} if c["labels"] == "abc" else {b"\xc3\xa9": "E_ACUTE", b"--": "DASH"}
    else:
        # multi-byte character encodings: the keys are the label text encoded with the declared encoding NAME (what the loader does)
        codec, order, bits = {"string-utf16-msb": ("UTF-16", "mostSignificantByteFirst", 48), "string-utf16-lsb": ("UTF-16", "leastSignificantByteFirst", 48),
                              "string-utf32be": ("UTF-32BE", None, 64)}[e]
        enc = lib.encodings.StringDataEncoding(encoding=codec, byte_order=order, fixed_raw_length=bits)
        texts = {"ON": "LABEL_ON", "NO": "LABEL_NO"} if c["labels"] == "abc" else {"\u00e9x": "E_ACUTE", "--": "DASH"}
        enum = {bytes(k, encoding=codec): v for k, v in texts.items()}
    return [("SUBJ", lib.parameter_types.EnumeratedParameterType("SUBJ_T", enc, enumeration=dict(enum), unit=c["unit"]))]


@subject("boolean-time", [("kind", ["boolean", "absolute", "relative"]), ("unit", [None, "s"]), ("scale", [None, 0.25, 1.0, 2.0 ** -16]), ("offset", [None, 0.0, -7.5, 315964800.125]),       # (2^-16 and the GPS epoch offset need more than 6 significant digits)
                          ("epoch", [None, "TAI", "2000-01-01T12:00:00"]), ("offset_from", [None, "SEQC"]), ("encoding", ["int", "float"])])
def _booltime(lib, c):
    K = lib.calibrators
    if c["encoding"] == "int":
        enc = lib.encodings.IntegerDataEncoding(8, "unsigned")
    else:
        enc = lib.encodings.FloatDataEncoding(32)
    if c["kind"] == "boolean":
        return [("SUBJ", lib.parameter_types.BooleanParameterType("SUBJ_T", enc, unit=c["unit"]))]
    coeffs = []
    if c["offset"] is not None:
        coeffs.append(K.PolynomialCoefficient(c["offset"], 0))
    if c["scale"] is not None:
        coeffs.append(K.PolynomialCoefficient(c["scale"], 1))
    elif c["offset"] is not None:
        coeffs.append(K.PolynomialCoefficient(1, 1))
    if coeffs:
        enc.default_calibrator = K.PolynomialCalibrator(coeffs)
    cls = lib.parameter_types.AbsoluteTimeParameterType if c["kind"] == "absolute" else lib.parameter_types.RelativeTimeParameterType
    return [("SUBJ", cls("SUBJ_T", enc, unit=c["unit"], epoch=c["epoch"], offset_from=c["offset_from"]))]


CONTAINER_DIMS = [("criteria", ["cmp", "cmp-raw-leq", "list", "bool-cond-value", "bool-cond-param", "bool-and-or", "bool-or-and", "none"]),
                  ("abstract_root", [True, False]), ("child_abstract", [False, True]), ("short", [None, "short text"]), ("long", [None, "long\ntext <&>"]),
                  ("pshort", [None, "p short <&>"]), ("plong", [None, "p long <&> \"q\" text"]), ("nested", [False, True, "unlisted"]), ("ns", ["xtce", "default", "other-prefix"]),      # unlisted: the nested container is reachable through the entry list only
                  # inheritance depth and the ORDER in which the containers are handed over / written (descendants before their ancestors is legal)
                  ("levels", ["two", "three-root-first", "three-leaf-first"])]


@subject("container", CONTAINER_DIMS)
def _container(lib, c):
    enc = lib.encodings.IntegerDataEncoding(8, "unsigned")
    return [("SUBJ", lib.parameter_types.IntegerParameterType("SUBJ_T", enc))]


def build(lib, subject_name, cfg):
    """-> XtcePacketDefinition assembled from objects"""
    PT, P, SC, E = lib.parameter_types, lib.parameters, lib.containers, lib.encodings
    hdr_params = [P.Parameter(n, PT.IntegerParameterType(n + "_T", E.IntegerDataEncoding(b, "unsigned"))) for n, b in HDR]
    subj = SUBJECTS[subject_name][1](lib, cfg)
    params = [P.Parameter(n, t, short_description=cfg.get("pshort"), long_description=cfg.get("plong")) for n, t in subj]
    tail = P.Parameter("TAIL", PT.IntegerParameterType("TAIL_T", E.IntegerDataEncoding(4, "unsigned")))
    root = SC.SequenceContainer("CCSDSPacket", list(hdr_params), abstract=cfg.get("abstract_root", True))
    entries = list(params) + [tail]
    conts = [root]
    if cfg.get("nested"):
        inner = SC.SequenceContainer("INNER", [tail], short_description="inner")
        entries = list(params) + [inner]
        if cfg["nested"] is True:
            conts.append(inner)
    form = cfg.get("criteria", "cmp")
    child = SC.SequenceContainer("CHILD", entries, base_container_name="CCSDSPacket", restriction_criteria=_criteria(lib, form) if form != "none" else [],
                                 abstract=cfg.get("child_abstract", False), short_description=cfg.get("short"), long_description=cfg.get("long"))
    root.inheritors.append("CHILD")
    conts.append(child)
    levels = cfg.get("levels", "two")
    if levels != "two":
        extra = P.Parameter("GEXTRA", PT.IntegerParameterType("GEXTRA_T", E.IntegerDataEncoding(4, "unsigned")))
        grand = SC.SequenceContainer("GRAND", [extra], base_container_name="CHILD",
                                     restriction_criteria=[lib.comparisons.Comparison("3", "SEQF", operator="==", use_calibrated_value=False)])
        child.inheritors.append("GRAND")
        conts.append(grand)
        if levels == "three-leaf-first":
            conts.reverse()
    nsk = cfg.get("ns", "xtce")
    uri = "http://www.omg.org/space/xtce"
    if nsk == "xtce":
        ns, prefix = {"xtce": uri}, "xtce"
    elif nsk == "default":
        ns, prefix = {None: uri}, None
    else:
        ns, prefix = {"q7": uri, "xsi": "http://www.w3.org/2001/XMLSchema-instance"}, "q7"
    return lib.definitions.XtcePacketDefinition(conts, ns=ns, xtce_ns_prefix=prefix, space_system_name="GEN", date=FIXED_DATE)
