"""Harness base: a harness executes the real code on proxies for one path and returns a PathResult.

PathResult.observe   what the symbolic run says the implementation produces (terms / proxies / concrete values)
PathResult.spec      what the property's oracle prescribes (same keys where both apply)
inputs (set by run)  name -> term / proxy; concretised with the model into the request for the unpatched worker
"""
import struct

import z3

from . import bv, obs
from .engine import Ctx, PathResult


def refine_model(ctx, model, tries=3):
    """Make the uninterpreted unpack() functions agree with the real struct.unpack on the bytes the model chose
    (DESIGN.md section 3, 'Uninterpreted results').  Returns a model or None (path explored but not validated)."""
    calls = ctx.notes.get("unpack_calls", [])
    if not calls:
        return model
    for _ in range(tries):
        facts = []
        ok = True
        for fmt, word in calls:
            n = word.size() // 8
            val = model.eval(word, model_completion=True).as_long()
            real = struct.unpack(fmt, val.to_bytes(n, "big"))[0]
            if real != real or real in (float("inf"), float("-inf")):
                ok = False
                break
            facts.append(word == val)
            facts.append(bv.unpack_fn(fmt, n)(z3.BitVecVal(val, 8 * n)) == bv.real_of(real))
        if not ok:
            # ask for different bytes for the offending call
            r = ctx.check(word != val)
            if r != z3.sat:
                return None
            model = ctx.s.model()
            continue
        r = ctx.check(*facts)
        if r == z3.sat:
            return ctx.s.model()
        # the branch taken on this path is not satisfied by the real value for these bytes: try other bytes
        r = ctx.check(z3.Or([z3.Not(f) for f in facts[::2]]))
        if r != z3.sat:
            return None
        model = ctx.s.model()
    return None




def undecodable(ctx, model):
    for codec, items in ctx.notes.get("decode_calls", []):
        try:
            bv.model_bytes(model, items).decode(codec)
        except (UnicodeDecodeError, LookupError):
            return True
    return False


class Harness:
    kind = "generic"
    validate = True
    validate_stride = 1

    def __init__(self, job):
        self.job = job

    def run(self, ctx) -> PathResult:
        raise NotImplementedError

    def soft(self, res):
        """witness diversification: prefer pseudo-random contents for every free input byte"""
        import hashlib
        import os
        import z3
        from . import bv
        seed = os.environ.get("VERIF_SEED", "0")
        out = []

        def walk(x):
            if isinstance(x, bv.SymBytes):
                for it in x.items:
                    if not isinstance(it, int) and z3.is_const(it) and it.decl().kind() == z3.Z3_OP_UNINTERPRETED:
                        h = hashlib.sha256(f"{seed}:{self.job.get('name')}:{it}".encode()).digest()[0]
                        out.append(it == h)
            elif isinstance(x, dict):
                for v in x.values():
                    walk(v)
            elif isinstance(x, (list, tuple)):
                for v in x:
                    walk(v)
        walk(getattr(res, "inputs", {}))
        # moderate magnitudes for every float that reaches struct.unpack (double overflow / underflow is outside the claim)
        ctx = Ctx.cur
        pre = []
        if ctx is not None:
            for fmt, word in ctx.notes.get("unpack_calls", []):
                n = word.size()
                ieee = word
                if fmt.startswith("<"):
                    parts = [z3.Extract(8 * i + 7, 8 * i, word) for i in range(n // 8)]
                    ieee = z3.Concat(*parts) if len(parts) > 1 else parts[0]
                hi, lo, a, b = {16: (14, 10, 12, 19), 32: (30, 23, 120, 134), 64: (62, 52, 1016, 1030)}[n]
                e = z3.Extract(hi, lo, ieee)
                pre.append(z3.And(z3.UGE(e, a), z3.ULE(e, b)))
            # printable ASCII for every byte that reaches bytes.decode (the codec itself is outside the claim)
            decoded = set()
            for _, items in ctx.notes.get("decode_calls", []):
                for b in items:
                    if not isinstance(b, int):
                        todo = [b]
                        while todo:
                            x = todo.pop()
                            if z3.is_const(x) and x.decl().kind() == z3.Z3_OP_UNINTERPRETED:
                                decoded.add(x.get_id())
                            else:
                                todo.extend(x.children())
                        pre.append(z3.And(z3.ULT(b, 0x7F), z3.UGE(b, 0x20)))
            out = [c for c in out if c.arg(0).get_id() not in decoded]
        return pre + out

    def concretize(self, model, res):
        skip = False
        ctx = Ctx.cur
        if ctx is not None and (ctx.notes.get("unpack_calls") or ctx.notes.get("decode_calls")):
            m = refine_model(ctx, model)
            if m is None:
                skip = True           # explored but not validated (DESIGN.md section 3, uninterpreted results)
            else:
                model = m
                skip = undecodable(ctx, model)
        req = {"kind": self.kind, "job": self.job.get("name"), "params": self.job.get("params", {}),
               "input": obs.ev(model, getattr(res, "inputs", {})),
               "expect": obs.ev(model, res.observe)}
        spec = getattr(res, "spec", None)
        if spec is not None:
            req["spec"] = obs.ev(model, spec)
        if getattr(res, "skip_validation", False) or skip:
            req["skip_validation"] = True
        return req


def result(cls, obligations=(), observe=None, spec=None, inputs=None, skip_validation=False):
    r = PathResult(cls, obligations, observe)
    r.observe = dict(observe or {})
    r.observe.setdefault("cls", cls)
    r.spec = spec
    r.inputs = inputs or {}
    r.skip_validation = skip_validation
    return r


def run_library(fn, *expected_exceptions):
    """Call fn(); classify a library exception.  Returns (value, exception-class-name or None).
    Engine exceptions (BaseException subclasses) propagate."""
    try:
        return fn(), None
    except Exception as e:    # noqa: BLE001 - library outcome, classified by the caller
        return e, type(e).__name__
