"""C19 - CLI listings show each packet once, in order, and never crash (decided on the row-selection logic).

Real code executed: cli.describe_packets.callback and cli.parse.callback (the click-decorated functions' own bodies) with
`ccsds_generator` / `XtcePacketDefinition` in the cli module replaced by stubs that yield n distinct packet tokens, and `Table`,
`console.print`, `pretty.pprint` replaced by recorders.  n is a configuration variable (every n in 0..N explored); the packet
index of `spp parse --packet i` is a SYMBOLIC integer that flows through the real bounds test and the real list subscript.
"That neither command hangs on any file, including an empty one" is discharged by C10 (the framer terminates on every finite
source) and is a stated dependency here, not re-proved through click.  Every path is additionally cross-validated END TO END:
the unpatched `spp` commands are run through click's test runner on a real file with n real packets and the printed rows /
packet are compared.
"""
import io
import os
import re
import tempfile

import z3

from spv import bv
from spv.harness import Harness, result

META = {
    "level": "model_checking",
    "claim": "END TO END: the real describe-packets body on the real framer over a symbolic file of 1, 2 and 11 (thorough also 3, 10, 12) packets whose data "
             "lengths are symbolic 1..65536: the rows are exactly the packets in order (first five, ellipsis, last five beyond ten), each row carrying "
             "that packet's own length, sequence count and APID.  With the framer stubbed: for every number of packets n = 0..13 (thorough 0..24) the real describe-packets row selection adds, in order, every packet exactly once "
             "when n <= 10 and otherwise the first five, one ellipsis row and the last five; for every n and a symbolic index i in [-1, n+1] the real "
             "parse command shows exactly packet i when 0 <= i < n and prints the out-of-range message otherwise (negative indices are not part of "
             "the property and are not asserted on), and no exception escapes either command.",
    "trusted": "click / rich rendering (stubbed by recorders in the symbolic run, exercised for real in the per-path cross-validation); C10 for termination",
    "bounds": {"quick": {"n": "0..13", "i": "symbolic in [-1, n+1]"}, "thorough": {"n": "0..24", "i": "symbolic in [-1, n+1]"}},
    "stubs": ["cli.ccsds_generator / cli.XtcePacketDefinition: yield n distinct tokens", "rich Table / console.print / pretty.pprint: recorders",
              "open(): a real empty temporary file"],
    "outside_claim": ["rendering by rich", "click argument parsing", "negative packet indices", "files with more than N packets"],
    "assumptions": ["the framer terminates and yields each packet once (C02, C10)"],
}


class Token:
    def __init__(self, k):
        self.k = k
        self.header_values = (0, 0, 0, 100 + k, 3, k, 0)

    def __repr__(self):
        return f"<pkt {self.k}>"


class Recorder:
    def __init__(self):
        self.rows, self.printed, self.pp = [], [], []

    def table_cls(self):
        rec = self

        class Table:
            def __init__(self, *a, **k):
                pass

            def add_column(self, *a, **k):
                pass

            def add_row(self, *cells):
                rec.rows.append(tuple(cells))
        return Table


class FakeConsole:
    def __init__(self, rec):
        self.rec = rec

    def print(self, *a, **k):
        self.rec.printed.append(a[0] if a else None)


class FakePretty:
    def __init__(self, rec):
        self.rec = rec

    def pprint(self, obj, **k):
        self.rec.pp.append(obj)

    def Pretty(self, obj, **k):   # noqa: N802
        return obj


def patched_cli(lib_cli, n, rec):
    saved = {k: getattr(lib_cli, k) for k in ("ccsds_generator", "XtcePacketDefinition", "Table", "console", "pretty")}
    tokens = [Token(k) for k in range(n)]
    lib_cli.ccsds_generator = lambda f, **kw: iter(tokens)

    class FakeDef:
        @classmethod
        def from_xtce(cls, *a, **k):
            return cls()

        def packet_generator(self, f, **kw):
            return iter(tokens)
    lib_cli.XtcePacketDefinition = FakeDef
    lib_cli.Table = rec.table_cls()
    lib_cli.console = FakeConsole(rec)
    lib_cli.pretty = FakePretty(rec)
    return saved, tokens


def restore(lib_cli, saved):
    for k, v in saved.items():
        setattr(lib_cli, k, v)


def expected_rows(n):
    ks = list(range(n)) if n <= 10 else list(range(5)) + ["..."] + list(range(n - 5, n))
    return ks


class Describe(Harness):
    """packets are real (re-hosted) RawPacketData objects with SYMBOLIC header bytes and data, so that two packets of the file may be
    byte-identical: a listing must still show each of them"""
    kind = "describe"

    def run(self, ctx):
        from pathlib import Path
        from space_packet_parser import cli
        N = self.job["params"]["N"]
        n = ctx.choose("n", N + 1)
        rec = Recorder()
        pk = []
        for k in range(n):
            bs = [z3.BitVec(f"k{k}_{j}", 8) for j in range(7)]
            bs[4], bs[5] = 0, 0
            pk.append(self.lib.RawPacketData(bv.SymBytes(bs)))
        saved, _ = patched_cli(cli, 0, rec)
        cli.ccsds_generator = lambda f, **kw: iter(pk)
        try:
            try:
                cli.describe_packets.callback(Path(self.empty))
                exc = None
            except Exception as e:    # noqa: BLE001
                exc = type(e).__name__
        finally:
            restore(cli, saved)
        cells = [tuple(str(v) for v in p.header_values) for p in pk]
        ks = expected_rows(n)
        want = [cells[k] if k != "..." else ("...",) * 7 for k in ks]
        got = [tuple(r) for r in rec.rows]
        got_idx = [("..." if all(c == "..." for c in r) else next((k for k in range(n) if cells[k] == r), "?")) for r in got]
        obl = [("no exception", exc is None), (f"n={n}: rows are packets {ks}, got {got_idx}", got == want)]
        if n == 0:
            obl.append(("empty file reported", any("No packets" in str(x) for x in rec.printed)))
        return result(f"n{n}", obl, observe={"rows": len(got), "exc": exc, "cls": "ran"}, inputs={"n": n, "packets": [bv.SymBytes(p.items) for p in pk]})


class Parse(Harness):
    kind = "parse"

    def run(self, ctx):
        from pathlib import Path
        from space_packet_parser import cli
        N = self.job["params"]["N"]
        n = ctx.choose("n", N + 1)
        i = z3.BitVec("i", bv.W)
        ctx.assume(z3.And(i >= -1, i <= n + 1))
        rec = Recorder()
        saved, tokens = patched_cli(cli, n, rec)
        try:
            try:
                cli.parse.callback(Path(self.empty), Path(self.empty), bv.SymInt(i, nb=8), 20, 40, 0)
                exc = None
            except Exception as e:    # noqa: BLE001
                exc = type(e).__name__
        finally:
            restore(cli, saved)
        shown = rec.pp[0].k if rec.pp and isinstance(rec.pp[0], Token) else None
        oor = any("out of range" in str(x) for x in rec.printed)
        obl = [("no exception escapes", z3.Or(z3.BoolVal(exc is None), i < 0))]
        if shown is not None:
            obl.append((f"shown packet {shown} is the one asked for", z3.Or(i == shown, i < 0)))
        elif oor:
            obl.append(("out-of-range message only for an invalid index", z3.Or(i >= n, i < 0)))
        elif exc is None:
            obl.append(("something is shown", z3.BoolVal(False)))
        return result("shown" if shown is not None else "oor" if oor else f"exc:{exc}", obl,
                      observe={"shown": shown, "oor": oor, "exc": exc, "cls": "ran"}, inputs={"n": n, "i": bv.SymInt(i)})


class DescribeE2E(Harness):
    """describe-packets END TO END on the LIA / views back end: the real command body runs the REAL framer on a symbolic file of P packets whose
    lengths are symbolic (1..65536 data bytes each), so a framing slip that only shows for particular lengths is visible in the listing"""
    kind = "describe-e2e"
    validate = False

    def run(self, ctx):
        import re as _re
        from pathlib import Path
        from space_packet_parser import cli
        from spv import lia
        P = self.job["params"]["P"]
        Ls = [z3.Int(f"L{i}") for i in range(P)]
        offs, o = [], z3.IntVal(0)
        for i in range(P):
            ctx.assume(z3.And(Ls[i] >= 1, Ls[i] <= 65536))
            offs.append(o)
            ctx.assume(lia.sel(o + 4) * 256 + lia.sel(o + 5) == Ls[i] - 1)
            o = o + 6 + Ls[i]
        T = z3.simplify(o)
        rec = Recorder()
        saved = {k: getattr(cli, k) for k in ("Table", "console", "pretty")}
        had_open = "open" in cli.__dict__
        cli.Table, cli.console, cli.pretty = rec.table_cls(), FakeConsole(rec), FakePretty(rec)
        cli.open = lambda path, mode="rb": lia.SymFile(T, 4 * P + 4)
        try:
            try:
                cli.describe_packets.callback(Path("symbolic.bin"))
                exc = None
            except Exception as e:    # noqa: BLE001
                exc = type(e).__name__
        finally:
            for k, v in saved.items():
                setattr(cli, k, v)
            if not had_open:
                del cli.open
        ks = expected_rows(P)
        obl = [("no exception", exc is None), (f"{P} packets: {len(ks)} rows", len(rec.rows) == len(ks))]

        def term(cell):
            m = _re.fullmatch(r"<lint#(\d+)>", cell)
            return lia.TAGS[int(m.group(1))] if m else z3.IntVal(int(cell))
        if len(rec.rows) == len(ks):
            for row, k in zip(rec.rows, ks):
                if k == "...":
                    obl.append(("ellipsis row", all(c == "..." for c in row)))
                    continue
                ok = len(row) == 7 and not any(c == "..." for c in row)
                obl.append((f"row for packet {k} has seven cells", ok))
                if ok:
                    seq = (lia.sel(offs[k] + 2) % 64) * 256 + lia.sel(offs[k] + 3)
                    apid = (lia.sel(offs[k]) % 8) * 256 + lia.sel(offs[k] + 1)
                    obl.append((f"row {k}: PKTLEN is packet {k}'s length field", term(row[6]) == Ls[k] - 1))
                    obl.append((f"row {k}: SEQCNT / APID are packet {k}'s", z3.And(term(row[5]) == seq, term(row[3]) == apid)))
        return result(f"P{P}", obl, observe={"cls": "ran"}, inputs={"P": P, **{f"L{i}": lia.LInt(Ls[i]) for i in range(P)}})


class Twin(Parse):
    def run(self, ctx):
        r = super().run(ctx)
        r.obligations = [("reachability twin", z3.BoolVal(False))]
        return r


def make(job):
    if job["h"] == "describe-e2e":
        from spv import lia
        lia.install()
        h = DescribeE2E(job)
        return h
    lib = bv.install(128)
    h = {"describe": Describe, "parse": Parse, "twin": Twin}[job["h"]](job)
    fd, path = tempfile.mkstemp(prefix="spv_c19_")
    os.close(fd)
    h.empty = path
    h.lib = lib
    import atexit
    atexit.register(lambda: os.path.exists(path) and os.unlink(path))
    return h


def jobs(tier):
    N = 13 if tier == "quick" else 24
    return [{"name": "describe", "h": "describe", "params": {"N": N}, "split": 8, "chunk": 20, "must_reach": ["n0", "n10", "n11"]},
            {"name": "parse", "h": "parse", "params": {"N": N}, "split": 16, "chunk": 30, "must_reach": ["shown", "oor"]}] + \
        [{"name": f"describe-e2e-P{P}", "h": "describe-e2e", "params": {"P": P}, "split": 8, "chunk": 20, "must_reach": [f"P{P}"]} for P in ((1, 2, 11) if tier == "quick" else (1, 2, 3, 10, 11, 12))]


def vacuity_jobs():
    return [{"name": "twin", "h": "twin", "params": {"N": 3}}]


# ------------------------------------------------------------------------------------------------- concrete side: the real commands
MINI = b"""<?xml version='1.0' encoding='UTF-8'?>
<xtce:SpaceSystem xmlns:xtce="http://www.omg.org/space/xtce" name="Mini"><xtce:TelemetryMetaData><xtce:ParameterTypeSet>
<xtce:IntegerParameterType name="U48"><xtce:IntegerDataEncoding sizeInBits="48" encoding="unsigned"/></xtce:IntegerParameterType>
<xtce:IntegerParameterType name="U16"><xtce:IntegerDataEncoding sizeInBits="16" encoding="unsigned"/></xtce:IntegerParameterType>
</xtce:ParameterTypeSet><xtce:ParameterSet><xtce:Parameter name="HDR" parameterTypeRef="U48"/><xtce:Parameter name="MARK" parameterTypeRef="U16"/></xtce:ParameterSet>
<xtce:ContainerSet><xtce:SequenceContainer name="CCSDSPacket"><xtce:EntryList><xtce:ParameterRefEntry parameterRef="HDR"/>
<xtce:ParameterRefEntry parameterRef="MARK"/></xtce:EntryList></xtce:SequenceContainer></xtce:ContainerSet></xtce:TelemetryMetaData></xtce:SpaceSystem>"""


def real_cli(kind, n, i=None, blobs=None):
    from click.testing import CliRunner
    from space_packet_parser import cli, packets
    with tempfile.TemporaryDirectory(prefix="spv_c19_") as d:
        pf, xf = os.path.join(d, "p.bin"), os.path.join(d, "x.xml")
        with open(pf, "wb") as f:
            if blobs is not None:
                for b in blobs:
                    f.write(b)
            else:
                for k in range(n):
                    f.write(packets.create_ccsds_packet((7000 + k).to_bytes(2, "big"), apid=100 + k, sequence_count=k))
        open(xf, "wb").write(MINI)
        runner = CliRunner()
        if kind == "describe":
            r = runner.invoke(cli.spp, ["describe-packets", pf], terminal_width=200)
        else:
            r = runner.invoke(cli.spp, ["parse", pf, xf, f"--packet={i}"], terminal_width=200)
    exc = type(r.exception).__name__ if r.exception is not None and not isinstance(r.exception, SystemExit) else None
    return r.output, exc


def header_tuple(b):
    bits = "".join(f"{x:08b}" for x in b)
    f = lambda a, n: int(bits[a:a + n], 2)
    return [f(0, 3), f(3, 1), f(4, 1), f(5, 11), f(16, 2), f(18, 14), len(b) - 7]


def real_rows(blobs):
    out, exc = real_cli("describe", len(blobs), blobs=blobs)
    rows = []
    for line in out.splitlines():
        cells = [c.strip() for c in re.split(r"[\u2502\u2503|]", line) if c.strip()]
        if len(cells) == 7 and all(re.fullmatch(r"\d+", c) for c in cells):
            rows.append([int(c) for c in cells])
        elif len(cells) == 7 and all(c in ("...", "\u2026") for c in cells):
            rows.append("...")
    return rows, exc


def _e2e_blobs(i):
    from space_packet_parser import packets
    import hashlib
    return [bytes(packets.create_ccsds_packet(hashlib.shake_128(bytes([j])).digest(i[f"L{j}"]), apid=100 + j, sequence_count=j)) for j in range(i["P"])]


def concrete(req):
    i = req["input"]
    if req["kind"] == "describe-e2e":
        rows, exc = real_rows(_e2e_blobs(i))
        return {"cls": "ran", "rows": len(rows), "exc": exc, "row_list": rows}
    if req["kind"] == "describe":
        rows, exc = real_rows([bytes.fromhex(p["hex"]) for p in i["packets"]])
        return {"cls": "ran", "rows": len(rows), "exc": exc, "row_list": rows}
    out, exc = real_cli("parse", i["n"], i["i"])
    m = re.search(r"'MARK':\s*(\d+)", out)
    multi = len(re.findall(r"'MARK':", out))
    shown = int(m.group(1)) - 7000 if m and multi == 1 else None
    return {"cls": "ran", "shown": shown, "oor": "out of range" in out, "exc": exc}


def judge(req, got):
    if got.get("cls") in ("WORKER-ERROR", "WORKER-DIED", "TIMEOUT"):
        return "error", str(got)[:300]
    i = req["input"]
    if req["kind"] == "describe-e2e":
        want = [header_tuple(b) if k != "..." else "..." for k, b in zip(expected_rows(i["P"]), [None] * 99)] if False else None
        blobs = _e2e_blobs(i)
        want = [header_tuple(blobs[k]) if k != "..." else "..." for k in expected_rows(i["P"])]
        if got.get("exc") or got.get("row_list") != want:
            return "reproduced", f"spp describe-packets on a file of {i['P']} packets with data lengths {[i[f'L{j}'] for j in range(i['P'])]}: rows {str(got.get('row_list'))[:300]} exc={got.get('exc')}; expected {str(want)[:300]}"
        return "not-reproduced", "rows as specified"
    if req["kind"] == "describe":
        blobs = [bytes.fromhex(p["hex"]) for p in i["packets"]]
        want = [header_tuple(blobs[k]) if k != "..." else "..." for k in expected_rows(i["n"])]
        if got["exc"] or got["row_list"] != want:
            return "reproduced", f"spp describe-packets on a file with packets {[b.hex() for b in blobs]}: rows {got['row_list']} exc={got['exc']}; expected {want}"
        return "not-reproduced", "rows as specified"
    n, k = i["n"], i["i"]
    if k < 0:
        return "not-reproduced", "negative index: no statement"
    if got["exc"]:
        return "reproduced", f"spp parse --packet {k} on a file of {n} packets ends in {got['exc']}"
    if 0 <= k < n:
        return ("not-reproduced", "shown") if got["shown"] == k else ("reproduced", f"spp parse --packet {k} of {n}: shown {got['shown']}, out-of-range message {got['oor']}")
    return ("not-reproduced", "message") if got["oor"] else ("reproduced", f"spp parse --packet {k} of {n}: no out-of-range message (shown {got['shown']})")


def finding_key(f, req, got):
    i = req.get("input", {})
    if req.get("kind") == "describe":
        return "C19:describe-packets-duplicate-rows" if 1 <= i.get("n", 0) <= 9 else f"C19:describe:n={i.get('n')}"
    if req.get("kind") == "describe-e2e":
        return "C19:describe-e2e:" + f["label"].split(":")[0][:40]
    if i.get("i") is not None and i.get("i") == i.get("n"):
        return "C19:parse-index-equal-to-count-IndexError"
    return f"C19:parse:{f['label'][:40]}"
