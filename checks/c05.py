"""C05 - container inheritance selects the unique matching structure, in order.

Harness: checks/e2e.py.  Templates with container trees: T4 (depth 4, fan-out 3, abstract flags, nested container reused twice,
criteria on user data and on a value that is 0, an ambiguous pair, an abstract dead end, a concrete early stop), T3 (two-level
inheritance through a nested BooleanExpression), T6 (children selected by two-parameter conditions whose operands use different value
selectors, re-decoding a header field), the bundled contrived inheritance document and test_xtce.xml.
The obligations that matter here: which packets are recognised, the order of the decoded names (parents before children, nested
containers expanded in place), the header / user-data views, and the partial data of unrecognised packets.
"""
from checks import e2e
from checks.e2e import concrete, judge, make  # noqa: F401

META = {
    "level": "model_checking",
    "claim": "For the listed container trees and every bit pattern of packets of the listed lengths, z3 proves on every path that the real "
             "parse_ccsds_packet / packet_generator descend exactly the chain of containers whose restriction criteria hold (as computed "
             "independently by Spec-XTCE from the XML text), decode the parameters of that chain in entry-list order with nested references "
             "expanded in place, expose the first seven items as header and the rest as user data, report 'unrecognized' with exactly the items "
             "decoded so far when an abstract container has no satisfied child or any container has several, and simply end at a concrete "
             "container with no satisfied child.",
    "trusted": "as C01",
    "bounds": {"quick": {"templates": {"T4": [9, 10], "T3": [16], "T6": [12], "JPSS_CONTRIVED": [71], "O|T4 (ContainerSet in reverse order)": [10], "R|T4 (root renamed; named at load / in the generator call / in a direct parse_ccsds_packet call)": [9, 10]}},
               "thorough": {"templates": {"T4": [8, 9, 10, 11], "T3": [15, 16, 17], "JPSS_CONTRIVED": [71], "JPSS": [71], "T1": [19]}}},
    "stubs": ["as C01"],
    "outside_claim": ["container trees outside the listed templates", "NextContainer / CustomAlgorithm criteria (unsupported by the library)"],
    "assumptions": [],
}

finding_key = e2e.finding_key("C05")


def J(name, template, lens, flagsets=(3,), split=16, chunk=30, **extra):
    return {"name": name, "h": "e2e", "params": dict({"template": template, "lens": lens, "flagsets": list(flagsets)}, **extra), "split": split, "chunk": chunk,
            "max_paths": 300000}


def jobs(tier):
    if tier == "quick":
        return [J("T4-9", "T4", [9]), J("T4-10", "T4", [10], flagsets=(0, 3)), J("T3-16", "T3", [16], flagsets=(2,)), J("T6-12", "T6", [12], flagsets=(3,)), J("T8-8-8", "T8", [8, 8], flagsets=(3,)),
                J("JPSSC-71", "JPSS_CONTRIVED", [71]), J("O|T4-10", "O|T4", [10]), J("T7-8", "T7", [8]), J("O|T7-8", "O|T7", [8]),      # T7: a container nested before its own definition that is also a base      # O|: the ContainerSet written in reverse order
                # the root container is not the default one: named when the document is loaded / in the generator call / in a direct parse_ccsds_packet call
                J("R|T4-10-load", "R|T4", [10], root_mode="load"), J("R|T4-9-gen", "R|T4", [9], root_mode="gen"), J("R|T4-10-direct-load", "R|T4", [10], via="direct", root_mode="load")]
    out = [J(f"T4-{n}", "T4", [n], flagsets=(0, 1, 2, 3)) for n in (8, 9, 10, 11)]
    out += [J(f"T3-{n}", "T3", [n], flagsets=(1, 2)) for n in (15, 16, 17)]
    out += [J(f"R|T4-{n}-{m}", "R|T4", [n], flagsets=(0, 3), root_mode=m) for n in (9, 10) for m in ("load", "gen")]
    out += [J(f"O|T4-{n}", "O|T4", [n], flagsets=(0, 3)) for n in (9, 10)] + [J("O|JPSSC-71", "O|JPSS_CONTRIVED", [71])]
    out += [J("R|T4-10-direct-load", "R|T4", [10], via="direct", root_mode="load"), J("R|T4-9-direct-gen", "R|T4", [9], via="direct", root_mode="gen"),
            J("R|JPSSC-71-load", "R|JPSS_CONTRIVED", [71], root_mode="load")]
    out += [J("T8-8-8", "T8", [8, 8], flagsets=(0, 3)), J("T8-9-8-8", "T8", [9, 8, 8], flagsets=(3,)), J("T6-12", "T6", [12], flagsets=(0, 3)), J("T6-13", "T6", [13], flagsets=(3,)), J("T7-8", "T7", [8], flagsets=(3,)), J("JPSSC-71", "JPSS_CONTRIVED", [71], flagsets=(0, 3)), J("JPSS-71", "JPSS", [71], flagsets=(2,)), J("T1-19", "T1", [19], flagsets=(2,))]
    return out


def vacuity_jobs():
    return [{"name": "twin-T4", "h": "twin", "params": {"template": "T4", "lens": [9], "flagsets": [3]}, "max_paths": 20}]
