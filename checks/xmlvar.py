"""Lexical variants and single-point corruptions of a canonical XTCE document (shared by C16 and C17).  Plain lxml only."""
import copy

import lxml.etree as ET

URI = "http://www.omg.org/space/xtce"
# the last three prefixes are adversarial: they are themselves (the beginning of) XTCE element names
# prefixes: the usual one, another one, names that are themselves (the beginning of) XTCE element names, and legal NCNames that are not
# identifiers (a hyphen, dots)
CONVENTIONS = ["prefix-xtce", "prefix-q7", "default-ns", "no-ns", "prefix-Unit", "prefix-P", "prefix-SequenceContainer", "prefix-xtce-1.2", "prefix-omg.xtce_v2"]


def L(tag):
    return ET.QName(tag).localname


def canonical_root(xml):
    return ET.fromstring(xml)


def rebuild(el, ns_uri, nsmap):
    """copy of the tree with every element moved to namespace ns_uri (None = no namespace)"""
    def tag(t):
        return f"{{{ns_uri}}}{L(t)}" if ns_uri else L(t)
    new = ET.Element(tag(el.tag), nsmap=nsmap)
    for k, v in el.attrib.items():
        new.set(k, v)
    new.text, new.tail = el.text, el.tail
    for c in el:
        if isinstance(c.tag, str):
            new.append(rebuild(c, ns_uri, None))
        else:
            cc = copy.deepcopy(c)
            new.append(cc)
    return new


def render(xml, convention):
    """-> (xml bytes, xtce_ns_prefix argument for the loader)"""
    root = canonical_root(xml)
    if convention == "prefix-xtce":
        return ET.tostring(rebuild(root, URI, {"xtce": URI})), "xtce"
    if convention == "prefix-q7":
        return ET.tostring(rebuild(root, URI, {"q7": URI, "xsi": "http://www.w3.org/2001/XMLSchema-instance"})), "q7"
    if convention == "default-ns":
        return ET.tostring(rebuild(root, URI, {None: URI})), None
    if convention.startswith("prefix-"):
        pre = convention[len("prefix-"):]
        return ET.tostring(rebuild(root, URI, {pre: URI})), pre
    return ET.tostring(rebuild(root, None, None)), None


def gap_positions(root):
    """all inter-element positions: (index of parent element in document order, child slot 0..n)"""
    out = []
    for pi, el in enumerate(e for e in root.iter() if isinstance(e.tag, str)):
        n = len([c for c in el if isinstance(c.tag, str)])
        if n:
            out += [(pi, s) for s in range(n + 1)]
        elif not (el.text or "").strip():
            out.append((pi, 0))          # an EMPTY element (<UnitSet/>, <EntryList/>, an encoding without children): a comment inside it
    return out


def with_comments(xml_bytes, positions, text=" note "):
    """insert a comment at each listed inter-element position (positions refer to the tree BEFORE insertion)"""
    root = ET.fromstring(xml_bytes)
    els = [e for e in root.iter() if isinstance(e.tag, str)]
    plan = {}
    for pi, slot in positions:
        plan.setdefault(pi, []).append(slot)
    for pi, slots in plan.items():
        el = els[pi]
        kids = [c for c in el if isinstance(c.tag, str)]
        for slot in sorted(slots, reverse=True):
            c = ET.Comment(text)
            if not kids:
                el.append(c)
            elif slot < len(kids):
                kids[slot].addprevious(c)
            else:
                kids[-1].addnext(c)
    return ET.tostring(root)


def with_whitespace(xml_bytes):
    root = ET.fromstring(xml_bytes, ET.XMLParser(remove_blank_text=True))
    return ET.tostring(root, pretty_print=True)


# ------------------------------------------------------------------------------------------------ corruptions (C17)
def _sets(root):
    tm = next(c for c in root if isinstance(c.tag, str) and L(c.tag) == "TelemetryMetaData")
    g = {L(c.tag): c for c in tm if isinstance(c.tag, str)}
    return g["ParameterTypeSet"], g["ParameterSet"], g["ContainerSet"]


def _elements(parent):
    return [c for c in parent if isinstance(c.tag, str)]


def reference_sites(root):
    """structural references: (kind, element, attribute)"""
    pts, ps, cs = _sets(root)
    out = []
    for p in _elements(ps):
        out.append(("parameterTypeRef", p, "parameterTypeRef"))
    for c in _elements(cs):
        for e in c.iter():
            if not isinstance(e.tag, str):
                continue
            if L(e.tag) == "ParameterRefEntry":
                out.append(("entry parameterRef", e, "parameterRef"))
            elif L(e.tag) == "ContainerRefEntry":
                out.append(("entry containerRef", e, "containerRef"))
            elif L(e.tag) == "BaseContainer":
                out.append(("base containerRef", e, "containerRef"))
    return out


def referenced_names(root):
    pts, ps, cs = _sets(root)
    used_types = {p.get("parameterTypeRef") for p in _elements(ps)}
    used_params, used_conts = set(), set()
    for c in _elements(cs):
        for e in c.iter():
            if isinstance(e.tag, str):
                if L(e.tag) == "ParameterRefEntry":
                    used_params.add(e.get("parameterRef"))
                elif L(e.tag) in ("ContainerRefEntry", "BaseContainer"):
                    used_conts.add(e.get("containerRef"))
    # only parameters reachable through entry lists keep their types alive in the definition; a dangling type reference of an
    # unused parameter is still a reference to an undefined name
    return used_types, used_params, used_conts


def corruptions(xml):
    """list of (kind, description, builder) where builder() -> corrupted xml bytes.  Deterministic order."""
    root0 = ET.fromstring(xml)
    out = []
    nref = len(reference_sites(root0))
    for i in range(nref):
        def b(i=i):
            r = ET.fromstring(xml)
            k, e, a = reference_sites(r)[i]
            e.set(a, e.get(a) + "_UNDEFINED")
            return ET.tostring(r)
        k, e, a = reference_sites(root0)[i]
        out.append(("dangling " + k, f"{k} #{i} ({e.get(a)}) renamed", b))
    pts, ps, cs = _sets(root0)
    used_types, used_params, used_conts = referenced_names(root0)
    for si, (label, n) in enumerate((("parameter type", len(_elements(pts))), ("parameter", len(_elements(ps))), ("container", len(_elements(cs))))):
        for i in range(n):
            name = _elements(_sets(root0)[si])[i].get("name")

            def dup(i=i, si=si, change=False):
                r = ET.fromstring(xml)
                s = _sets(r)[si]
                el = _elements(s)[i]
                cp = copy.deepcopy(el)
                if change:
                    if si == 2:
                        cp.set("abstract", "false" if cp.get("abstract", "false").lower() == "true" else "true")
                    else:
                        cp.set("shortDescription", "changed copy")
                el.addnext(cp)
                return ET.tostring(r)
            out.append((f"duplicate {label} unchanged", f"{label} {name} duplicated", dup))
            out.append((f"duplicate {label} changed", f"{label} {name} duplicated with a change", lambda i=i, si=si: dup(i, si, True)))
            referenced = name in (used_types, used_params, used_conts)[si]
            if referenced:
                def dele(i=i, si=si):
                    r = ET.fromstring(xml)
                    s = _sets(r)[si]
                    s.remove(_elements(s)[i])
                    return ET.tostring(r)
                out.append((f"delete referenced {label}", f"{label} {name} deleted", dele))
    conts = _elements(cs)
    for i, c in enumerate(conts):
        name = c.get("name")

        def nest(i=i):
            r = ET.fromstring(xml)
            c = _elements(_sets(r)[2])[i]
            el = next(e for e in c if isinstance(e.tag, str) and L(e.tag) == "EntryList")
            ref = ET.SubElement(el, ET.QName(c).namespace and f"{{{ET.QName(c).namespace}}}ContainerRefEntry" or "ContainerRefEntry")
            ref.set("containerRef", c.get("name"))
            return ET.tostring(r)
        out.append(("nesting cycle", f"container {name} nests itself", nest))
        base = next((e for e in c if isinstance(e.tag, str) and L(e.tag) == "BaseContainer"), None)
        if base is not None:
            def cyc(i=i):
                r = ET.fromstring(xml)
                cs_ = _elements(_sets(r)[2])
                c = cs_[i]
                base = next(e for e in c if isinstance(e.tag, str) and L(e.tag) == "BaseContainer")
                parent = next(x for x in cs_ if x.get("name") == base.get("containerRef"))
                pb = next((e for e in parent if isinstance(e.tag, str) and L(e.tag) == "BaseContainer"), None)
                if pb is None:
                    pb = ET.SubElement(parent, base.tag)
                pb.set("containerRef", c.get("name"))
                for ch in list(pb):
                    pb.remove(ch)
                return ET.tostring(r)
            out.append(("base cycle", f"base container of {name} made to inherit from {name}", cyc))
    return out
