"""Template XTCE documents generated deterministically (not random): one per feature interaction.

Every template is (xml bytes, clean packet length in bytes, notes).  The header parameters are deliberately NOT named
PKT_APID etc. (the library must not depend on the names).  Shared by C01, C05, C07, C09, C11, C14, C15, C16, C17.
"""
NS = "http://www.omg.org/space/xtce"
HDR = [("VER", 3), ("TYP", 1), ("SHF", 1), ("APID", 11), ("SEQF", 2), ("SEQC", 14), ("LEN", 16)]


def I(n, bits, enc="unsigned", extra="", order=None):
    o = f' byteOrder="{order}"' if order else ""
    return (f'<xtce:IntegerParameterType name="{n}"><xtce:IntegerDataEncoding sizeInBits="{bits}" encoding="{enc}"{o}>{extra}'
            f'</xtce:IntegerDataEncoding></xtce:IntegerParameterType>')


def F(n, bits, enc="IEEE754", order="mostSignificantByteFirst", extra=""):
    return (f'<xtce:FloatParameterType name="{n}"><xtce:FloatDataEncoding sizeInBits="{bits}" encoding="{enc}" byteOrder="{order}">{extra}'
            f'</xtce:FloatDataEncoding></xtce:FloatParameterType>')


def STR(n, size_xml, enc="UTF-8", order=None):
    o = f' byteOrder="{order}"' if order else ""
    return f'<xtce:StringParameterType name="{n}"><xtce:StringDataEncoding encoding="{enc}"{o}>{size_xml}</xtce:StringDataEncoding></xtce:StringParameterType>'


def BIN(n, size_xml):
    return f'<xtce:BinaryParameterType name="{n}"><xtce:BinaryDataEncoding><xtce:SizeInBits>{size_xml}</xtce:SizeInBits></xtce:BinaryDataEncoding></xtce:BinaryParameterType>'


def DYN(ref, cal, slope=None, icpt=None):
    adj = f'<xtce:LinearAdjustment slope="{slope}" intercept="{icpt}"/>' if slope is not None else ""
    return f'<xtce:DynamicValue><xtce:ParameterInstanceRef parameterRef="{ref}" useCalibratedValue="{cal}"/>{adj}</xtce:DynamicValue>'


def DL(val, crit):
    return f'<xtce:DiscreteLookup value="{val}">{crit}</xtce:DiscreteLookup>'


def CMP(p, v, op="==", cal="false"):
    return f'<xtce:Comparison parameterRef="{p}" value="{v}" comparisonOperator="{op}" useCalibratedValue="{cal}"/>'


def CMPD(p, v, op=None):
    """a Comparison with its OPTIONAL attributes left out (comparisonOperator defaults to "==", useCalibratedValue to "true")"""
    return f'<xtce:Comparison parameterRef="{p}" value="{v}"' + (f' comparisonOperator="{op}"' if op else "") + "/>"


def CMPLIST(*c):
    return "<xtce:ComparisonList>" + "".join(c) + "</xtce:ComparisonList>"


def COND(l, op, r=None, v=None, lcal="true", rcal="true"):
    right = f'<xtce:ParameterInstanceRef parameterRef="{r}" useCalibratedValue="{rcal}"/>' if r else f'<xtce:Value>{v}</xtce:Value>'
    return (f'<xtce:Condition><xtce:ParameterInstanceRef parameterRef="{l}" useCalibratedValue="{lcal}"/>'
            f'<xtce:ComparisonOperator>{op}</xtce:ComparisonOperator>{right}</xtce:Condition>')


def POLY(*terms):
    return "<xtce:PolynomialCalibrator>" + "".join(f'<xtce:Term coefficient="{c}" exponent="{e}"/>' for c, e in terms) + "</xtce:PolynomialCalibrator>"


def SPLINE(pts, order=0, extrapolate="false"):
    return (f'<xtce:SplineCalibrator order="{order}" extrapolate="{extrapolate}">'
            + "".join(f'<xtce:SplinePoint raw="{a}" calibrated="{b}"/>' for a, b in pts) + "</xtce:SplineCalibrator>")


def DEFCAL(x):
    return f"<xtce:DefaultCalibrator>{x}</xtce:DefaultCalibrator>"


def CTXCAL(*pairs):
    return "<xtce:ContextCalibratorList>" + "".join(
        f"<xtce:ContextCalibrator><xtce:ContextMatch>{m}</xtce:ContextMatch><xtce:Calibrator>{c}</xtce:Calibrator></xtce:ContextCalibrator>" for m, c in pairs
    ) + "</xtce:ContextCalibratorList>"


def entries(names):
    out = ""
    for n in names:
        if n.startswith("@"):
            out += f'<xtce:ContainerRefEntry containerRef="{n[1:]}"/>'
        else:
            out += f'<xtce:ParameterRefEntry parameterRef="{n}"/>'
    return out


def cont(name, ents, base=None, crit=None, abstract="false", extra_attr=""):
    b = ""
    if base:
        rc = f"<xtce:RestrictionCriteria>{crit}</xtce:RestrictionCriteria>" if crit else ""
        b = f'<xtce:BaseContainer containerRef="{base}">{rc}</xtce:BaseContainer>'
    return f'<xtce:SequenceContainer name="{name}" abstract="{abstract}"{extra_attr}><xtce:EntryList>{entries(ents)}</xtce:EntryList>{b}</xtce:SequenceContainer>'


def doc(types, params, root_entries, children, root_abstract="true", hdr=HDR, root="CCSDSPacket"):
    t = "".join(I(n + "_T", b) for n, b in hdr) + types
    p = "".join(f'<xtce:Parameter name="{n}" parameterTypeRef="{n}_T"/>' for n, _ in hdr)
    p += "".join(f'<xtce:Parameter name="{n}" parameterTypeRef="{ty}"/>' for n, ty in params)
    return (f'<?xml version="1.0" encoding="UTF-8"?>\n<xtce:SpaceSystem xmlns:xtce="{NS}" name="T"><xtce:TelemetryMetaData>'
            f'<xtce:ParameterTypeSet>{t}</xtce:ParameterTypeSet><xtce:ParameterSet>{p}</xtce:ParameterSet>'
            f'<xtce:ContainerSet>{cont(root, [n for n, _ in hdr] + list(root_entries), abstract=root_abstract)}{children}</xtce:ContainerSet>'
            f'</xtce:TelemetryMetaData></xtce:SpaceSystem>').encode()


T = {}

# T1: 4-bit count, binary sized 8*N-8 (raw reference + adjuster, may be negative), unaligned signed 12-bit, LE float32, enumeration,
#     6-bit integer with polynomial default + spline context calibrator (criteria on an enumerated label's raw value), terminated string.
T["T1"] = (doc(
    types=I("N_T", 4) + I("S12_T", 12, "signed")
    + BIN("BODY_T", DYN("N", "false", 8, -8))
    + F("F32_T", 32, order="leastSignificantByteFirst")
    + ('<xtce:EnumeratedParameterType name="E_T"><xtce:IntegerDataEncoding sizeInBits="2" encoding="unsigned"/><xtce:EnumerationList>'
       '<xtce:Enumeration label="OFF" value="0"/><xtce:Enumeration label="ON" value="1"/><xtce:Enumeration label="STBY" value="3"/>'
       '</xtce:EnumerationList></xtce:EnumeratedParameterType>')
    + I("C_T", 6, "unsigned", DEFCAL(POLY((0.5, 1), (-1, 0))) + CTXCAL((CMP("E", "1"), SPLINE([(0, 0), (10, 5), (63, -3)], 1))))
    + STR("STR_T", '<xtce:SizeInBits><xtce:Fixed><xtce:FixedValue>24</xtce:FixedValue></xtce:Fixed><xtce:TerminationChar>00</xtce:TerminationChar></xtce:SizeInBits>'),
    params=[("N", "N_T"), ("BODY", "BODY_T"), ("S12", "S12_T"), ("F32", "F32_T"), ("E", "E_T"), ("C", "C_T"), ("STR", "STR_T")],
    root_entries=[], children=cont("P0", ["N", "BODY", "S12", "F32", "E", "C", "STR"], "CCSDSPacket", CMPD("APID", "0"))),      # optional attributes omitted; the compared value is 0
    6 + 13, "clean when N=4 (BODY 24 bits): 4+24+12+32+2+6+24 = 104 bits")

# T2: strings and binaries with every length source (leading size, calibrated reference, discrete lookups, UTF-16 with declared byte order)
T["T2"] = (doc(
    types=I("K_T", 3) + I("M_T", 5, "unsigned", DEFCAL(POLY((8, 1))))
    + STR("SL_T", '<xtce:SizeInBits><xtce:Fixed><xtce:FixedValue>29</xtce:FixedValue></xtce:Fixed><xtce:LeadingSize sizeInBitsOfSizeTag="5"/></xtce:SizeInBits>')
    + STR("SD_T", "<xtce:Variable>" + DYN("M", "true") + "</xtce:Variable>", enc="UTF-16", order="mostSignificantByteFirst")
    + STR("SK_T", "<xtce:Variable><xtce:DiscreteLookupList>" + DL(8, CMP("K", "1")) + DL(16, CMPLIST(CMP("K", "2", ">="), CMP("K", "6", "&lt;")))
          + "</xtce:DiscreteLookupList><xtce:TerminationChar>58</xtce:TerminationChar></xtce:Variable>")
    + BIN("BK_T", "<xtce:DiscreteLookupList>" + DL(4, CMP("K", "0")) + DL(12, CMP("K", "3", "!=")) + "</xtce:DiscreteLookupList>")
    + BIN("BM_T", DYN("M", "true")),
    params=[("K", "K_T"), ("M", "M_T"), ("SL", "SL_T"), ("SD", "SD_T"), ("SK", "SK_T"), ("BK", "BK_T"), ("BM", "BM_T")],
    root_entries=[], children=cont("P1", ["K", "M", "SL", "SD", "SK", "BK", "BM"], "CCSDSPacket", CMP("APID", "1"))),
    6 + 12, "strings / binaries")

# T3: IEEE 16/64, little-endian MIL-1750A, little-endian signed 16, boolean, scaled time, nested container, two-level inheritance with a
#     nested BooleanExpression containing a two-parameter condition (int vs int), criteria on a boolean and on a calibrated time value
T["T3"] = (doc(
    types=I("P3_T", 3) + F("F16_T", 16) + F("MIL_T", 32, "MILSTD_1750A", "leastSignificantByteFirst") + F("F64_T", 64, order="leastSignificantByteFirst")
    + I("L16_T", 16, "signed", order="leastSignificantByteFirst")
    + '<xtce:BooleanParameterType name="BO_T"><xtce:IntegerDataEncoding sizeInBits="2"/></xtce:BooleanParameterType>'
    + '<xtce:AbsoluteTimeParameterType name="TM_T"><xtce:Encoding units="s" scale="0.25" offset="10"><xtce:IntegerDataEncoding sizeInBits="7"/></xtce:Encoding></xtce:AbsoluteTimeParameterType>',
    params=[("P3", "P3_T"), ("F16", "F16_T"), ("MIL", "MIL_T"), ("F64", "F64_T"), ("L16", "L16_T"), ("BO", "BO_T"), ("TM", "TM_T"), ("Q3", "P3_T")],
    root_entries=["P3"],
    children=cont("NEST", ["BO", "TM"])
    + cont("MID", ["F16", "@NEST"], "CCSDSPacket",
           "<xtce:BooleanExpression><xtce:ORedConditions>" + COND("P3", "&gt;=", v="5", lcal="false")
           + "<xtce:ANDedConditions>" + COND("APID", "==", r="SEQC") + COND("TYP", "!=", v="1") + "</xtce:ANDedConditions>"
           + "</xtce:ORedConditions></xtce:BooleanExpression>", abstract="true")
    + cont("LEAF_A", ["MIL", "L16"], "MID", CMP("BO", "1", cal="true"))
    + cont("LEAF_B", ["F64", "Q3"], "MID", CMP("TM", "12", ">", cal="true"))),
    6 + 10, "LEAF_A: 3+16+2+7+32+16=76 -> 10 bytes w/ 4 spare bits; LEAF_B: 3+16+2+7+64+3=95")

# T4 (inheritance): depth 4, fan-out 3, abstract flags, ambiguous pair, abstract dead end, concrete early stop, nested container reused
#     twice, child-of-child with criteria on user data, criteria on a value that is 0
T["T4"] = (doc(
    types=I("U2_T", 2) + I("U4_T", 4) + I("U8_T", 8) + I("S6_T", 6, "twosComplement"),
    params=[("A2", "U2_T"), ("B4", "U4_T"), ("C8", "U8_T"), ("D6", "S6_T"), ("E4", "U4_T"), ("G2", "U2_T"), ("H8", "U8_T"), ("J4", "U4_T")],
    root_entries=["A2"],
    children=cont("PAIR", ["G2", "J4"])
    + cont("L1A", ["B4", "@PAIR"], "CCSDSPacket", CMP("A2", "0"), abstract="true")          # A2 == 0: criteria on a zero value
    + cont("L1B", ["C8"], "CCSDSPacket", CMP("A2", "1"))                                    # concrete: may stop here
    + cont("L1C", ["D6", "@PAIR", "@PAIR"], "CCSDSPacket", CMPLIST(CMP("A2", "2", ">="), CMP("SHF", "1")))   # PAIR decoded twice
    + cont("L2A", ["E4"], "L1A", CMP("B4", "7", "&lt;="))                                   # criteria on user data
    + cont("L2B", ["H8"], "L1A", CMP("B4", "7", "&gt;="))                                   # overlaps with L2A at B4 == 7: ambiguous
    + cont("L2C", ["E4", "H8"], "L1B", "<xtce:BooleanExpression>" + COND("C8", "==", v="200", lcal="false") + "</xtce:BooleanExpression>")
    + cont("L2E", ["G2"], "L1B", CMP("C8", "77"), abstract="true")                          # abstract and WITHOUT any inheritor: a packet that ends up here is not defined
    + cont("L2D", ["J4"], "L1B", CMP("C8", "199", "&gt;"))                                  # overlaps with L2C at C8 == 200: ambiguity under a CONCRETE parent
    + cont("L3A", ["C8"], "L2A", CMP("E4", "15", "!="), abstract="true")                    # abstract with one conditional child: dead end possible
    + cont("L4A", ["D6"], "L3A", CMP("C8", "0"))
    + cont("L5U", ["G2"], "L4A")),                                                         # UNCONDITIONAL inheritance: <BaseContainer> without <RestrictionCriteria> always applies
    6 + 3, "many shapes; lengths vary per branch")

# T5 (bit accounting): layouts whose consumed size depends on earlier fields, with adjusters of positive, zero and negative intercepts,
#     discrete lookup sizes, a leading-size string, and a trailing integer after the dynamic fields
T["T5"] = (doc(
    types=I("N3_T", 3) + I("Q5_T", 5) + I("U8_T", 8)
    + BIN("BNEG_T", DYN("N3", "false", 8, -16))          # 8*N - 16: negative for N < 2
    + BIN("BZERO_T", DYN("Q5", "false", 1, 0))
    + STR("SPOS_T", "<xtce:Variable>" + DYN("N3", "false", 8, 8) + '<xtce:LeadingSize sizeInBitsOfSizeTag="8"/></xtce:Variable>')
    + BIN("BLK_T", "<xtce:DiscreteLookupList>" + DL(8, CMP("N3", "3", "&lt;")) + DL(3, CMP("N3", "3", "&gt;=")) + "</xtce:DiscreteLookupList>")
    + BIN("BLAST_T", DYN("N3", "false", 8, 0)),           # byte-aligned, whole bytes, LAST field of its container
    params=[("N3", "N3_T"), ("Q5", "Q5_T"), ("BNEG", "BNEG_T"), ("BZERO", "BZERO_T"), ("SPOS", "SPOS_T"), ("BLK", "BLK_T"), ("TAIL", "U8_T"), ("BLAST", "BLAST_T")],
    root_entries=[],
    children=cont("V0", ["N3", "Q5", "BNEG", "TAIL"], "CCSDSPacket", CMP("APID", "0"))
    + cont("V1", ["N3", "Q5", "BZERO", "TAIL"], "CCSDSPacket", CMP("APID", "1"))
    + cont("V2", ["N3", "Q5", "SPOS", "TAIL"], "CCSDSPacket", CMP("APID", "2"))
    + cont("V3", ["N3", "Q5", "BLK", "TAIL"], "CCSDSPacket", CMP("APID", "3"))
    + cont("V4", ["N3", "Q5", "BLAST"], "CCSDSPacket", CMP("APID", "4"))),
    6 + 3, "V0: 8 + (8N-16) + 8; V1: 8 + Q + 8; V2: 8 + (8N+8) + 8; V3: 8 + {8|3} + 8")

# T6: calibrators on float encodings, criteria on a float raw value, context calibrators referring to their own raw value,
#     relative time with only an offset, enumerated with a calibrated integer encoding
T["T6"] = (doc(
    types=F("FC_T", 32, extra=DEFCAL(POLY((1.0, 0), (2.0, 1))))
    + I("SELF_T", 8, "signed", CTXCAL((CMPLIST(CMP("SELF", "0", "&lt;"), CMP("SELF", "-100", "&gt;=")), POLY((0.0, 0), (-1.0, 1))),
                                      (CMP("SELF", "-50", "&gt;"), SPLINE([(-50, -1), (100, 0), (127, 27)], 1)))     # overlaps the first context on (-50, 0)
        + DEFCAL(SPLINE([(-128, -1), (0, 0), (127, 1)], 0, "true")))
    + '<xtce:RelativeTimeParameterType name="RT_T"><xtce:Encoding units="ms" offset="-5"><xtce:IntegerDataEncoding sizeInBits="4"/></xtce:Encoding></xtce:RelativeTimeParameterType>'
    + ('<xtce:EnumeratedParameterType name="EC_T"><xtce:UnitSet/><xtce:IntegerDataEncoding sizeInBits="4" encoding="signed">' + DEFCAL(POLY((3.0, 1)))
       + '</xtce:IntegerDataEncoding><xtce:EnumerationList><xtce:Enumeration label="NEG" value="-1"/><xtce:Enumeration label="ZERO" value="0"/>'
         '<xtce:Enumeration label="SEVEN" value="7"/></xtce:EnumerationList></xtce:EnumeratedParameterType>'),
    params=[("FC", "FC_T"), ("SELF", "SELF_T"), ("RT", "RT_T"), ("EC", "EC_T")],
    root_entries=[], children=cont("P6", ["SELF", "RT", "EC", "FC"], "CCSDSPacket", CMP("APID", "6"))
    # children selected by TWO-PARAMETER conditions whose operands use different value selectors (RT: raw r, calibrated r-5; SELF calibrated by context)
    + cont("P6X", ["VER"], "P6", "<xtce:BooleanExpression>" + COND("RT", "&lt;", r="SELF", lcal="false", rcal="true") + "</xtce:BooleanExpression>")
    + cont("P6Y", ["TYP"], "P6", "<xtce:BooleanExpression><xtce:ANDedConditions>" + COND("SELF", "&gt;=", r="RT", lcal="false", rcal="true")
           + COND("RT", "!=", v="3", lcal="false") + "</xtce:ANDedConditions></xtce:BooleanExpression>")),
    6 + 6, "8+4+4+32 = 48 bits; P6X / P6Y re-decode a header field (the packet mapping keeps its first position)")


# T7 (object identity): SHARED is nested by OUTER1 BEFORE its own definition (forward reference), nested again by OUTER2, and is also the base of
#     CHILD_OF_SHARED; parameters shared between containers
T["T7"] = (doc(
    types=I("U4_T", 4) + I("U8_T", 8),
    params=[("P1", "U4_T"), ("P2", "U4_T"), ("P3", "U8_T"), ("P4", "U8_T"), ("P_UNUSED", "U8_T")],      # P_UNUSED is in no entry list
    root_entries=[],
    children=cont("OUTER0", ["P4", "@MID"], "CCSDSPacket", CMP("APID", "5"))          # nests MID BEFORE MID's own definition ...
    + cont("MID", ["P1"], "CCSDSPacket", CMP("APID", "4"))                              # ... and MID is also on an inheritance path: root -> MID -> LEAF
    + cont("LEAF", ["P3"], "MID", CMP("P1", "1"))
    + cont("OUTER1", ["P1", "@SHARED"], "CCSDSPacket", CMP("APID", "1"))
    + cont("SHARED", ["P2"], abstract="false")
    + cont("OUTER2", ["@SHARED", "P3", "@SHARED"], "CCSDSPacket", CMP("APID", "2"))
    + cont("CHILD_OF_SHARED", ["P3", "P4"], "SHARED", CMP("P2", "1"))
    + cont("OUTER3", ["P4", "@OUTER2LIKE"], "CCSDSPacket", CMP("APID", "3"))
    + cont("OUTER2LIKE", ["P1", "@SHARED"])),
    6 + 2, "identity / inheritor consistency under forward references")


# T8 (history / type-varying parameter): Q is an integer with ONLY a context calibrator (applies when N == 1), so its derived value is a float
#     in some packets and the raw integer in others; children are selected by Comparisons on Q's CALIBRATED value; P's context calibrator and the
#     lookup-sized binary B also test Q's calibrated value.  Meant for multi-packet streams through ONE definition object.
T["T8"] = (doc(
    types=I("N_T", 2) + I("Q_T", 6, "unsigned", CTXCAL((CMP("N", "1"), POLY((0.5, 0), (1, 1)))))
    + I("P_T", 4, "unsigned", CTXCAL((CMP("Q", "20", "&gt;", cal="true"), POLY((100, 0), (1, 1)))))
    + BIN("B_T", "<xtce:DiscreteLookupList>" + DL(4, CMP("Q", "3", "==", cal="true")) + DL(12, CMP("Q", "40", "&gt;=", cal="true")) + DL(8, CMP("Q", "0", "&gt;=", cal="true"))
          + "</xtce:DiscreteLookupList>")
    + I("U4_T", 4),
    params=[("N", "N_T"), ("Q", "Q_T"), ("P", "P_T"), ("B", "B_T"), ("A4", "U4_T"), ("B4", "U4_T")],
    root_entries=["N", "Q"],
    children=cont("KLO", ["P", "A4"], "CCSDSPacket", CMP("Q", "10", "&lt;", cal="true"))
    + cont("KHI", ["B", "B4"], "CCSDSPacket", CMP("Q", "10", "&gt;=", cal="true"))),
    6 + 2, "KLO: 8 + 8 bits; KHI: 8 + {4,8,12} + 4 bits")


def bundled(name):
    import os
    return open(os.environ.get("VERIF_REPO", "/repo") + f"/tests/test_data/{name}", "rb").read()


# TD (dataset, flat): every packet has the same fields (the root container is concrete and has no children): unsigned 8, little-endian signed 16
#     with a polynomial calibrator, a 2-bit enumeration, a 1-bit boolean and a 5-bit integer.  6 + 4 bytes.
T["TD"] = (doc(
    types=I("A_T", 8) + I("B_T", 16, "signed", DEFCAL(POLY((2.5, 0), (0.5, 1))), order="leastSignificantByteFirst")
    + ('<xtce:EnumeratedParameterType name="E_T"><xtce:IntegerDataEncoding sizeInBits="2" encoding="unsigned"/><xtce:EnumerationList>'
       + "".join(f'<xtce:Enumeration label="L{v}" value="{v}"/>' for v in range(4)) + '</xtce:EnumerationList></xtce:EnumeratedParameterType>')
    + '<xtce:BooleanParameterType name="K_T"><xtce:IntegerDataEncoding sizeInBits="1"/></xtce:BooleanParameterType>' + I("Z_T", 5),
    params=[("A", "A_T"), ("B", "B_T"), ("E", "E_T"), ("K", "K_T"), ("Z", "Z_T")],
    root_entries=["A", "B", "E", "K", "Z"], children="", root_abstract="false"),
    6 + 4, "flat layout for create_dataset: 8 + 16 + 2 + 1 + 5 = 32 bits")


# TI (plain, flat): two plain integer fields and nothing that forks - long streams stay a single path.  6 + 3 bytes.
T["TI"] = (doc(types=I("A_T", 8) + I("B_T", 16), params=[("A", "A_T"), ("B", "B_T")], root_entries=["A", "B"], children="", root_abstract="false"),
           6 + 3, "flat: 8 + 16 bits")


def get(name):
    if name in T:
        return T[name]
    if name == "JPSS":
        return bundled("test_xtce.xml"), 71, "bundled test_xtce.xml (JPSS geolocation subset)"
    if name == "JPSS_CONTRIVED":
        return bundled("jpss/contrived_inheritance_structure.xml"), 71, "bundled contrived inheritance structure"
    raise KeyError(name)


# ------------------------------------------------------------------------------------------------ generated string / binary family (C07)
CODECS = ["US-ASCII", "ISO-8859-1", "Windows-1252", "UTF-8", "UTF-16", "UTF-16LE", "UTF-16BE", "UTF-32", "UTF-32LE", "UTF-32BE"]
DELIMS = ["whole", "term", "lead8", "lead16"]
# "ref-raw-of-cal": the RAW value of a parameter that also has a calibrator (raw 0 <-> calibrated 16), through an adjuster
# "ref-raw-bits": the length in BITS is the raw value itself (0..15: buffers shorter than a byte and not whole bytes)
# "ref-cal-frac": the CALIBRATED value of the reference is fractional (raw/2) and the adjustment (slope 8) makes the size integral for even raws
SOURCES = ["fixed", "fixed-odd", "lookup", "ref-raw-adj", "ref-cal", "ref-raw-of-cal", "ref-raw-bits", "ref-cal-frac"]


def _term_hex(codec, order):
    if codec.startswith("UTF-16"):
        le = codec.endswith("LE") or (codec == "UTF-16" and order == "leastSignificantByteFirst")
        return "5800" if le else "0058"
    if codec.startswith("UTF-32"):
        le = codec.endswith("LE") or (codec == "UTF-32" and order == "leastSignificantByteFirst")
        return "58000000" if le else "00000058"
    return "58"


def _size_source(src, fixed_bits):
    if src == "fixed":
        return None, fixed_bits
    if src == "lookup":
        return "<xtce:DiscreteLookupList>" + DL(16, CMP("LENF", "1")) + DL(0, CMP("LENF", "3")) + DL(fixed_bits, CMP("LENF", "8", "&gt;=")) + DL(40, CMPLIST(CMP("LENF", "2", ">="), CMP("LENF", "5", "!="))) + DL(8, CMP("LENF", "2", "&lt;")) + "</xtce:DiscreteLookupList>", None
    if src == "ref-raw-adj":
        return DYN("LENF", "false", 8, -8), None
    if src == "ref-cal":
        return DYN("LENF", "true"), None
    if src == "ref-raw-of-cal":
        return DYN("LENF", "false", 8, 0), None
    if src == "ref-cal-frac":
        return DYN("LENF", "true", 8, 0), None
    if src == "ref-raw-bits":
        return DYN("LENF", "false", 1, 0), None
    raise KeyError(src)


def string_template(codec, delim, src, off, order="mostSignificantByteFirst", last=False):
    unit = 2 if codec.startswith("UTF-16") else 4 if codec.startswith("UTF-32") else 1
    fixed_bits = {"fixed": 8 * unit * 3, "fixed-odd": 8 * unit * 3 - 3}.get(src, 8 * unit * 2)
    extra = ""
    if delim == "term":
        extra = f"<xtce:TerminationChar>{_term_hex(codec, order)}</xtce:TerminationChar>"
    elif delim == "lead8":
        extra = '<xtce:LeadingSize sizeInBitsOfSizeTag="8"/>'
    elif delim == "lead16":
        extra = '<xtce:LeadingSize sizeInBitsOfSizeTag="16"/>'
    dyn, fx = _size_source("fixed" if src == "fixed-odd" else src, fixed_bits)
    if fx is not None:
        size = f"<xtce:SizeInBits><xtce:Fixed><xtce:FixedValue>{fx}</xtce:FixedValue></xtce:Fixed>{extra}</xtce:SizeInBits>"
    else:
        size = f"<xtce:Variable>{dyn}{extra}</xtce:Variable>"
    o = order if codec in ("UTF-16", "UTF-32") else None
    lcal = DEFCAL(POLY((8, 1))) if src == "ref-cal" else DEFCAL(POLY((16, 0), (8, 1))) if src == "ref-raw-of-cal" else DEFCAL(POLY((0.5, 1))) if src == "ref-cal-frac" else ""
    types = (I("PAD_T", max(off, 1)) + I("LENF_T", 4, "unsigned", lcal) + I("U4_T", 4)
             + STR("S_T", size, enc=codec, order=o))
    ents = (["PAD"] if off else []) + ["LENF", "S"] + ([] if last else ["TAIL"])       # last: the string is the LAST field (it may end in the packet's last byte)
    xml = doc(types=types, params=[("PAD", "PAD_T"), ("LENF", "LENF_T"), ("S", "S_T"), ("TAIL", "U4_T")], root_entries=ents, children="",
              root_abstract="false")
    return xml, 6 + 10, f"string {codec} {delim} {src} offset {off}"


def binary_template(src, off):
    if src == "fixed":
        size = "<xtce:FixedValue>24</xtce:FixedValue>"
    elif src == "fixed-odd":
        size = "<xtce:FixedValue>13</xtce:FixedValue>"
    elif src == "lookup":
        size = "<xtce:DiscreteLookupList>" + DL(16, CMP("LENF", "1")) + DL(0, CMP("LENF", "3")) + DL(13, CMP("LENF", "8", "&gt;=")) + DL(40, CMPLIST(CMP("LENF", "2", ">="), CMP("LENF", "5", "!="))) + DL(8, CMP("LENF", "2", "&lt;")) + "</xtce:DiscreteLookupList>"
    elif src == "ref-raw-adj":
        size = DYN("LENF", "false", 3, 1)
    elif src == "ref-raw-of-cal":
        size = DYN("LENF", "false", 4, 0)
    elif src == "ref-raw-bits":
        size = DYN("LENF", "false", 1, 0)
    elif src == "ref-cal-frac":
        size = DYN("LENF", "true", 6, 1)          # calibrated raw/2, size 3*raw + 1 bits
    else:
        size = DYN("LENF", "true")
    lcal = DEFCAL(POLY((8, 1))) if src == "ref-cal" else DEFCAL(POLY((16, 0), (8, 1))) if src == "ref-raw-of-cal" else DEFCAL(POLY((0.5, 1))) if src == "ref-cal-frac" else ""
    types = (I("PAD_T", max(off, 1)) + I("LENF_T", 4, "unsigned", lcal) + I("U4_T", 4) + BIN("B_T", size))
    ents = (["PAD"] if off else []) + ["LENF", "B", "TAIL"]
    xml = doc(types=types, params=[("PAD", "PAD_T"), ("LENF", "LENF_T"), ("B", "B_T"), ("TAIL", "U4_T")], root_entries=ents, children="",
              root_abstract="false")
    return xml, 6 + 8, f"binary {src} offset {off}"


_old_get = get


def get(name):      # noqa: F811
    if name.startswith("S|"):
        last = name.endswith("|LAST")
        if last:
            name = name[:-5]
        _, codec, delim, src, off = name.split("|")[:5]
        order = name.split("|")[5] if name.count("|") >= 5 else "mostSignificantByteFirst"
        return string_template(codec, delim, src, int(off), order, last=last)
    if name.startswith("B|"):
        _, src, off = name.split("|")
        return binary_template(src, int(off))
    return _old_get(name)


# ------------------------------------------------------------------------------------------------ mixed-feature family (C01 / C05 / C14, "programs" quantifier)
def _pool(j, ref):
    """field kinds; each returns (type xml, width description).  `ref` is the name of the small unsigned reference field."""
    n = f"_{j}"
    return [
        lambda: I("M" + n, 3),
        lambda: I("M" + n, 5, "signed"),
        lambda: I("M" + n, 16, "unsigned", order="leastSignificantByteFirst"),
        lambda: F("M" + n, 16),
        lambda: F("M" + n, 32, order="leastSignificantByteFirst"),
        lambda: ('<xtce:EnumeratedParameterType name="M' + n + '"><xtce:IntegerDataEncoding sizeInBits="2" encoding="unsigned"/><xtce:EnumerationList>'
                 '<xtce:Enumeration label="A" value="0"/><xtce:Enumeration label="B" value="2"/><xtce:Enumeration label="C" value="3"/></xtce:EnumerationList>'
                 '</xtce:EnumeratedParameterType>'),
        lambda: '<xtce:BooleanParameterType name="M' + n + '"><xtce:IntegerDataEncoding sizeInBits="1"/></xtce:BooleanParameterType>',
        lambda: BIN("M" + n, "<xtce:FixedValue>5</xtce:FixedValue>"),
        lambda: BIN("M" + n, DYN(ref, "false", 3, 2)),
        lambda: STR("M" + n, "<xtce:SizeInBits><xtce:Fixed><xtce:FixedValue>16</xtce:FixedValue></xtce:Fixed></xtce:SizeInBits>"),
        lambda: STR("M" + n, "<xtce:SizeInBits><xtce:Fixed><xtce:FixedValue>24</xtce:FixedValue></xtce:Fixed><xtce:TerminationChar>3B</xtce:TerminationChar></xtce:SizeInBits>"),
        lambda: I("M" + n, 7, "unsigned", DEFCAL(POLY((-3.5, 0), (0.25, 1)))),
        lambda: I("M" + n, 6, "twosComplement", CTXCAL((CMP(ref, "1", "&gt;"), POLY((1, 0), (2, 1))), (CMP(ref, "0", "&gt;="), SPLINE([(-32, 0), (0, 8), (31, 9)], 1, "true")))),
        lambda: ('<xtce:RelativeTimeParameterType name="M' + n + '"><xtce:Encoding units="s" scale="0.5"><xtce:IntegerDataEncoding sizeInBits="9"/></xtce:Encoding>'
                 '</xtce:RelativeTimeParameterType>'),
        lambda: I("M" + n, 12, "twosComplement"),
        lambda: I("M" + n, 1),
        lambda: STR("M" + n, "<xtce:Variable>" + DYN(ref, "false", 8, 8) + '<xtce:LeadingSize sizeInBitsOfSizeTag="8"/></xtce:Variable>'),
        lambda: ('<xtce:BooleanParameterType name="M' + n + '"><xtce:IntegerDataEncoding sizeInBits="3">' + DEFCAL(POLY((4, 0), (2, 1)))
                 + '</xtce:IntegerDataEncoding></xtce:BooleanParameterType>'),       # calibrated encoding: the boolean is still the truthiness of the RAW value
        lambda: ('<xtce:EnumeratedParameterType name="M' + n + '"><xtce:IntegerDataEncoding sizeInBits="3" encoding="signed">' + DEFCAL(POLY((1, 0), (1, 1)))
                 + '</xtce:IntegerDataEncoding><xtce:EnumerationList><xtce:Enumeration label="NEG" value="-1"/><xtce:Enumeration label="Z" value="0"/>'
                 '<xtce:Enumeration label="ONE" value="1"/><xtce:Enumeration label="TWO" value="2"/></xtce:EnumerationList></xtce:EnumeratedParameterType>'),
        # zero-order (step) spline as the DEFAULT calibrator over the whole raw range: every knot, interior ones included, is an ordinary raw value
        lambda: I("M" + n, 4, "unsigned", DEFCAL(SPLINE([(0, 1.5), (5, -2), (9, 4), (15, 0.5)], 0))),
    ]


def mixed(k):
    """deterministic document number k of the mixed family: header, reference field N (2 bits), one field in the root, and two child
    containers selected by criteria on N that add two / one more fields drawn from the pool"""
    npool = len(_pool(0, "N"))
    idx = [(k * 7 + i * 5 + (k // npool)) % npool for i in range(3)]
    types = I("N_T", 2)
    params = [("N", "N_T")]
    names = []
    for j, ix in enumerate(idx):
        types += _pool(j, "N")[ix]()
        params.append((f"F{j}", f"M_{j}"))
        names.append(f"F{j}")
    crit_a = [CMP("N", "2", "&gt;="), CMPLIST(CMP("N", "1", "&gt;"), CMP("TYP", "0")), "<xtce:BooleanExpression>" + COND("N", "geq", v="2", lcal="false") + "</xtce:BooleanExpression>"][k % 3]
    crit_b = CMP("N", "2", "&lt;") if k % 2 == 0 else CMPLIST(CMP("N", "1", "&lt;="), CMP("SHF", "0"))
    xml = doc(types=types, params=params, root_entries=["N", names[0]],
              children=cont("KA", [names[1], names[2]], "CCSDSPacket", crit_a) + cont("KB", [names[2]], "CCSDSPacket", crit_b))
    return xml, 6 + 6, f"mixed document {k}: pool indices {idx}"


_old_get2 = get


def get(name):      # noqa: F811
    if name.startswith("MIX"):
        return mixed(int(name[3:]))
    return _old_get2(name)


# ------------------------------------------------------------------------------------------------ non-default root container name
_old_get3 = get
ALT_ROOT = "ROOTX"


def get(name):      # noqa: F811
    """"R|<template>": the same document with its root container renamed (loaded / parsed with root_container_name=ALT_ROOT)"""
    if name.startswith("R|"):
        xml, clean, why = _old_get3(name[2:])
        assert xml.count(b'"CCSDSPacket"') >= 1
        return xml.replace(b'"CCSDSPacket"', b'"' + ALT_ROOT.encode() + b'"'), clean, why + f" (root container renamed to {ALT_ROOT})"
    return _old_get3(name)


_old_get4 = get


def get(name):      # noqa: F811
    """"O|<template>": the same document with the SequenceContainers of its ContainerSet written in REVERSE order (descendants before their base
    containers, nested containers after their users): document order carries no meaning in XTCE"""
    if name.startswith("O|"):
        import lxml.etree as ET
        xml, clean, why = _old_get4(name[2:])
        root = ET.fromstring(xml)
        cs = next(e for e in root.iter() if isinstance(e.tag, str) and e.tag.endswith("}ContainerSet"))
        kids = [c for c in cs if isinstance(c.tag, str)]
        for c in kids:
            cs.remove(c)
        for c in reversed(kids):
            cs.append(c)
        return ET.tostring(root, xml_declaration=True, encoding="UTF-8"), clean, why + " (ContainerSet in reverse order)"
    return _old_get4(name)


def root_of(name):
    return ALT_ROOT if "R|" in name[:4] else "CCSDSPacket"
