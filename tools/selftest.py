#!/usr/bin/env python3
"""tools/selftest.py [--suite] [--only Cxx] [--id mNN,mMM]: sensitivity of the checks to small hand-written mutants (DESIGN.md Appendix B).

Each mutant is one textual edit of the library.  It is applied to a scratch worktree of /repo HEAD (under /tmp, removed afterwards);
the matching check runs against that worktree (VERIF_REPO); with --suite the pinned test suite runs there too, to show which mutants
the tests do not notice.  Results: /verif/seeded/selftest.json and a table on stdout.  Not a manifest check.
"""
import json
import os
import shutil
import subprocess
import sys

P = "space_packet_parser/"
M = [
    # (id, check, file, old, new)
    ("m01", "C03", P + "packets.py", "end_byte = start_byte + (start_bit_within_byte + nbits + 7) // 8", "end_byte = start_byte + (start_bit_within_byte + nbits + 8) // 8"),
    ("m02", "C03", P + "packets.py", "return (value >> (len(data) * 8 - start_bit_within_byte - nbits)) & (2 ** nbits - 1)", "return (value >> (len(data) * 8 - start_bit_within_byte - nbits)) & (2 ** nbits)"),
    ("m03", "C03", P + "packets.py", "if self.pos % 8 == 0 and nbits % 8 == 0:", "if nbits % 8 == 0:"),
    ("m04", "C03", P + "packets.py", "        bytes_as_int = _extract_bits(self, self.pos, nbits)\n        self.pos += nbits", "        bytes_as_int = _extract_bits(self, self.pos, nbits)\n        self.pos += (nbits + 7) // 8 * 8"),
    ("m05", "C13", P + "packets.py", "if sequence_count < 0 or sequence_count > 16383:", "if sequence_count < 0 or sequence_count > 16384:"),
    ("m06", "C13", P + "packets.py", "| sequence_flags << 48 - 18", "| sequence_flags << 48 - 17"),
    ("m07", "C13", P + "packets.py", "return len(self) - RawPacketData.HEADER_LENGTH_BYTES - 1", "return len(self) - RawPacketData.HEADER_LENGTH_BYTES"),
    ("m08", "C13", P + "packets.py", "if len(data) < 1 or len(data) > 65536:", "if len(data) < 1 or len(data) > 65535:"),
    ("m09", "C04", P + "xtce/encodings.py", "return val - (1 << bit_width)  # compute negative value", "return val - (1 << bit_width) + 1  # compute negative value"),
    ("m10", "C04", P + "xtce/encodings.py", "if self.byte_order == \"leastSignificantByteFirst\":\n                    bytes_as_int = int.from_bytes(mil_bytes, byteorder='little')", "if self.byte_order != \"leastSignificantByteFirst\":\n                    bytes_as_int = int.from_bytes(mil_bytes, byteorder='little')"),
    ("m11", "C04", P + "xtce/encodings.py", "return mantissa * (2.0 ** (exponent - (24 - 1)))", "return mantissa * (2.0 ** (exponent - 24))"),
    ("m12", "C04", P + "xtce/encodings.py", "            if self.byte_order == \"leastSignificantByteFirst\":\n                self._struct_format = \"<\"", "            if self.byte_order == \"leastSignificantByteFirst\" and self.size_in_bits != 16:\n                self._struct_format = \"<\""),
    ("m13", "C02", P + "packets.py", "n_bytes_data = _extract_bits(header_bytes, 32, 16) + 1", "n_bytes_data = _extract_bits(header_bytes, 32, 16) + 1 if len(read_buffer) < 70000 else _extract_bits(header_bytes, 32, 16)"),
    ("m14", "C02", P + "packets.py", "            read_buffer = read_buffer[current_pos:]\n            current_pos = 0", "            read_buffer = read_buffer[current_pos + 1:]\n            current_pos = 0"),
    ("m15", "C02", P + "packets.py", "        while len(read_buffer) - current_pos < n_bytes_packet:", "        while len(read_buffer) - current_pos < n_bytes_packet - 1:"),
    ("m16", "C10", P + "packets.py", "        if len(read_buffer) - current_pos < n_bytes_packet:\n            break", "        if len(read_buffer) - current_pos < n_bytes_packet - 1:\n            break"),
    # (equivalent w.r.t. C10: a 5-byte remainder still declares >= 7 bytes and the second guard stops the loop)
    ("m17", "C10", P + "packets.py", "        if len(read_buffer) - current_pos < skip_header_bytes + RawPacketData.HEADER_LENGTH_BYTES:\n            break", "        if len(read_buffer) - current_pos < RawPacketData.HEADER_LENGTH_BYTES - 1:\n            break"),
    ("m17b", "C10", P + "packets.py", "        if len(read_buffer) - current_pos < n_bytes_packet:\n            break", "        if len(read_buffer) - current_pos < RawPacketData.HEADER_LENGTH_BYTES:\n            break"),
    ("m18", "C12", P + "xtce/definitions.py", "if not all((sequence_counts[i + 1] - sequence_counts[i]) % 16384 == 1", "if not all((sequence_counts[i + 1] - sequence_counts[i]) == 1"),
    ("m19", "C12", P + "xtce/definitions.py", "raw_data += p[raw_packet_data.HEADER_LENGTH_BYTES + secondary_header_bytes:]", "raw_data += p[raw_packet_data.HEADER_LENGTH_BYTES:]"),
    ("m20", "C12", P + "xtce/definitions.py", "                _segmented_packets[raw_packet_data.apid] = [raw_packet_data]\n                continue", "                _segmented_packets.setdefault(raw_packet_data.apid, []).append(raw_packet_data)\n                continue"),
    ("m21", "C06", P + "xtce/comparisons.py", "\"&lt;=\": \"__le__\", \"leq\": \"__le__\", \"<=\": \"__le__\",", "\"&lt;=\": \"__le__\", \"leq\": \"__lt__\", \"<=\": \"__le__\","),
    ("m22", "C06", P + "xtce/comparisons.py", "                if condition.evaluate(packet) is True:\n                    return True", "                if condition.evaluate(packet):\n                    return False if len(ored.conditions) > 2 else True"),
    ("m23", "C06", P + "xtce/comparisons.py", "                parsed_value = packet[self.referenced_parameter].raw_value\n        elif current_parsed_value", "                parsed_value = packet[self.referenced_parameter]\n        elif current_parsed_value"),
    ("m24", "C08", P + "xtce/calibrators.py", "            return y[first_greater - 1]", "            return y[first_greater]"),
    ("m25", "C08", P + "xtce/calibrators.py", "        if query_point > max(x) and self.extrapolate:\n            return linear_func(query_point, x[-2], x[-1], y[-2], y[-1])", "        if query_point > max(x) and self.extrapolate:\n            return linear_func(query_point, x[0], x[-1], y[0], y[-1])"),
    ("m26", "C08", P + "xtce/parameter_types.py", "return common.BoolParameter(bool(parsed_value), parsed_value)", "return common.BoolParameter(bool(parsed_value), bool(parsed_value))"),
    ("m27", "C05", P + "xtce/definitions.py", "            if len(valid_inheritors) == 0:\n                if current_container.abstract:", "            if len(valid_inheritors) == 0:\n                if current_container.abstract and len(current_container.inheritors) > 1:"),
    ("m28", "C05", P + "packets.py", "return dict(list(self.items())[:7])", "return dict(list(self.items())[:6])"),
    ("m29", "C07", P + "xtce/encodings.py", "pad_bits = (8 - (buflen_bits % 8)) % 8", "pad_bits = (8 - (buflen_bits % 8)) % 8 if buflen_bits > 8 else 0"),
    ("m30", "C07", P + "xtce/encodings.py", "parsed_string = raw_string_buffer.read_as_bytes(tchar_byte_index * 8).decode(self._codec)", "parsed_string = raw_string_buffer.read_as_bytes(tchar_byte_index * 8 + (8 if tchar_byte_index == 1 else 0)).decode(self._codec)"),
    ("m31", "C14", P + "xtce/definitions.py", "if packet.raw_data.pos != len(packet.raw_data) * 8:", "if packet.raw_data.pos > len(packet.raw_data) * 8:"),
    # (m32 is equivalent w.r.t. C14: a bytes read running up to 7 bits past the end leaves the cursor beyond the packet, which is flagged)
    ("m32", "C14", P + "packets.py", "        if self.pos + nbits > len(self) * 8:\n            raise ValueError(\"End of packet reached\")", "        if self.pos + nbits > len(self) * 8 + 7:\n            raise ValueError(\"End of packet reached\")"),
    # (m33: a PRIVATE attribute left on the definition is not "modifying the definition" as the property observes it - its XML and public
    #  state are unchanged -, see DESIGN.md 0.4; m33b leaves a PUBLIC attribute behind)
    ("m33", "C11", P + "xtce/definitions.py", "            except UnrecognizedPacketTypeError as e:\n                logger.debug", "            except UnrecognizedPacketTypeError as e:\n                self._last_error = e\n                logger.debug"),
    ("m33b", "C11", P + "xtce/definitions.py", "            except UnrecognizedPacketTypeError as e:\n                logger.debug", "            except UnrecognizedPacketTypeError as e:\n                self.root_container_name = self.root_container_name + ''\n                self.last_unrecognized = packet.raw_data.apid\n                logger.debug"),
    ("m34", "C09", P + "xtce/comparisons.py", "            useCalibratedValue=str(self.use_calibrated_value).lower(),\n            comparisonOperator=self.operator,", "            comparisonOperator=self.operator,"),
    ("m35", "C09", P + "xtce/calibrators.py", "            extrapolate=str(self.extrapolate).lower(),", "            extrapolate=\"false\","),
    ("m36", "C09", P + "xtce/encodings.py", "                intercept = self.linear_adjuster(0)\n                slope = self.linear_adjuster(1) - intercept", "                intercept = self.linear_adjuster(0)\n                slope = self.linear_adjuster(1)"),
    ("m37", "C15", P + "xtce/definitions.py", "*(param.to_xml(elmaker=elmaker) for param in self.parameters.values()),", "*(param.to_xml(elmaker=elmaker) for param in set(self.parameters.values())),"),
    ("m38", "C16", P + "xtce/parameter_types.py", "for el in enumeration_list.iterfind('*')\n            }\n\n        if isinstance(encoding, encodings.FloatDataEncoding):", "for el in enumeration_list\n            }\n\n        if isinstance(encoding, encodings.FloatDataEncoding):"),
    ("m39", "C17", P + "xtce/definitions.py", "            if parameter_type_object.name in parameter_type_dict:", "            if parameter_type_object.name in parameter_type_dict and parameter_type_dict[parameter_type_object.name] != parameter_type_object:"),
    ("m40", "C18", P + "xarr.py", "        elif nbits <= 32:\n            datatype += \"32\"", "        elif nbits <= 33:\n            datatype += \"32\""),
    # (m41 / m41b are equivalent at the API: xarray itself raises ValueError for variables of conflicting sizes, so a field-set mismatch within
    #  one APID still ends in ValueError)
    ("m41", "C18", P + "xarr.py", "            if variable_mapping[apid] != packet.keys():", "            if len(variable_mapping[apid]) != len(packet.keys()):"),
    ("m41b", "C18", P + "xarr.py", "            if variable_mapping[apid] != packet.keys():", "            if not variable_mapping[apid] <= packet.keys():"),
    # (equivalent: at exactly ten packets head + tail without an ellipsis row is still every packet once, in order)
    ("m42", "C19", P + "cli.py", "    if npackets > MAX_ROWS:\n        head_packets", "    if npackets >= MAX_ROWS:\n        head_packets"),
    ("m42b", "C19", P + "cli.py", "        head_packets, tail_packets = packets[:HEAD_ROWS], packets[-HEAD_ROWS:]", "        head_packets, tail_packets = packets[:HEAD_ROWS], packets[-HEAD_ROWS + 1:]"),
    # less common entry points and options (round 4)
    ("m44", "C09", P + "xtce/definitions.py", "        tree = ElementTree.parse(xtce_document, parser=xtce_parser)  # noqa: S320",
     "        tree = ElementTree.parse(xtce_document, parser=None if isinstance(xtce_document, str) else xtce_parser)  # noqa: S320"),
    ("m45", "C01", P + "xtce/definitions.py", "        root_container_name = root_container_name or self.root_container_name\n\n        # Used to keep track",
     "        root_container_name = self.root_container_name\n\n        # Used to keep track"),
    ("m46", "C11", P + "xtce/definitions.py", "            if ccsds_headers_only:\n                yield raw_packet_data", "            if ccsds_headers_only and parse_bad_pkts:\n                yield raw_packet_data"),
    ("m47", "C12", P + "xtce/definitions.py", "raw_data += p[raw_packet_data.HEADER_LENGTH_BYTES + secondary_header_bytes:]",
     "raw_data += p[raw_packet_data.HEADER_LENGTH_BYTES + secondary_header_bytes + skip_header_bytes:]"),
    ("m48", "C18", P + "xarr.py", "            packet_generator = list(xtce_packet_definition.packet_generator(f, **packet_generator_kwargs))",
     "            packet_generator = list(xtce_packet_definition.packet_generator(f, **{k: v for k, v in packet_generator_kwargs.items() if k != 'skip_header_bytes'}))"),
    ("m49", "C06", P + "xtce/comparisons.py", "            required_value = t_comparate(self.required_value)", "            required_value = t_comparate(float(self.required_value))"),
    ("m43", "C20", P + "common.py", "obj.raw_value = raw_value if raw_value is not None else value", "obj.raw_value = raw_value or value"),
]


EQUIVALENT = {"m17", "m32", "m33", "m41", "m41b", "m42"}


def main():
    only = sys.argv[sys.argv.index("--only") + 1] if "--only" in sys.argv else None
    suite = "--suite" in sys.argv
    ids = sys.argv[sys.argv.index("--id") + 1].split(",") if "--id" in sys.argv else None
    out = {}
    path = "/verif/seeded/selftest.json"
    if os.path.exists(path):
        out = json.load(open(path))
    for mid, check, rel, old, new in M:
        if only and check != only:
            continue
        if ids and mid not in ids:
            continue
        wt = f"/tmp/mut_{mid}"
        subprocess.run(f"git -C /repo worktree remove --force {wt}", shell=True, capture_output=True)
        shutil.rmtree(wt, ignore_errors=True)
        subprocess.run(f"git -C /repo worktree add -q --detach {wt} HEAD", shell=True, check=True)
        try:
            src = open(os.path.join(wt, rel)).read()
            if src.count(old) < 1:
                out[mid] = {"check": check, "file": rel, "error": "pattern not found (library changed?)"}
                print(mid, check, "PATTERN NOT FOUND")
                continue
            open(os.path.join(wt, rel), "w").write(src.replace(old, new, 1))
            r = subprocess.run(f"cd /verif && VERIF_REPO={wt} VERIF_BUDGET_S=600 ./check {check}", shell=True, capture_output=True, text=True)
            lines = [ln[:300] for ln in r.stdout.splitlines() if ln.startswith(("VIOLATION", "  counterexample", "INCONCLUSIVE"))]
            rec = {"check": check, "file": rel, "old": old, "new": new, "check_exit": r.returncode, "first_lines": lines[:2]}
            if suite:
                t = subprocess.run(f"cd {wt} && timeout 1500 /venv/bin/python -m pytest -q -x -p no:cacheprovider --timeout=900 2>&1 | tail -1", shell=True,
                                   capture_output=True, text=True)
                rec["suite"] = t.stdout.strip()
            out[mid] = rec
            print(mid, check, "exit", r.returncode, "| suite:", rec.get("suite", "-"), "|", (lines[:1] or [""])[0][:160], flush=True)
        finally:
            subprocess.run(f"git -C /repo worktree remove --force {wt}", shell=True, capture_output=True)
            shutil.rmtree(wt, ignore_errors=True)
        os.makedirs("/verif/seeded", exist_ok=True)
        json.dump(out, open(path, "w"), indent=1)
    killed = sum(1 for v in out.values() if v.get("check_exit") == 1)
    for k in EQUIVALENT:
        if k in out:
            out[k]["equivalent"] = True
    json.dump(out, open(path, "w"), indent=1)
    live = [k for k, v in out.items() if v.get("check_exit") != 1 and k not in EQUIVALENT]
    print(f"{killed}/{len(out)} mutants reported as VIOLATION; {len([k for k in out if k in EQUIVALENT])} equivalent w.r.t. the property (see comments); not caught: {live}")


if __name__ == "__main__":
    main()
