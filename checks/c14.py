"""C14 - bit consumption is accounted for; over-reads are never delivered as clean data.

Harness: checks/e2e.py on layouts whose consumed size depends on earlier fields (template T5: adjusters with positive, zero and
negative intercepts, discrete-lookup sizes, a leading-size string, a trailing integer after the dynamic field; T1; the generated
binary/string templates) with packet lengths from 'too short for anything' to clean+2 bytes, with every bit symbolic (so the
length-carrying fields take every value, including those that make a computed size negative or larger than what is left).
Obligations that matter here: clean delivery (no warning) only when Spec-XTCE says every width is >= 0, every field ends inside
the packet and the widths sum to 8*len; cursor == sum of the widths; a mismatch is warned about, and withheld when
parse_bad_pkts=False; exactly one length warning per mismatched packet.
"""
from checks import e2e
from checks.e2e import concrete, judge, make  # noqa: F401

META = {
    "level": "model_checking",
    "claim": "For the listed length-dependent layouts and packets of every length from 7 bytes up to clean+2 bytes with all bits symbolic and both "
             "values of parse_bad_pkts, z3 proves on every path that a packet is yielded without the length-mismatch warning only if the reference "
             "decoder finds every field width non-negative, every field inside the packet and the widths summing to exactly 8*len (then the "
             "cursor equals that sum); that every other packet is warned about (one warning each) and withheld when bad packets are excluded, or "
             "fails with an exception; in particular negative computed widths and reads past the end are never delivered as clean.",
    "trusted": "as C01",
    "bounds": {"quick": {"templates": {"T5": [7, 8, 9, 10], "B|ref-raw-adj|3": [8, 9], "T1": [18]}},
               "thorough": {"templates": {"T5": [7, 8, 9, 10, 11, 12], "T1": [17, 18, 19, 20, 21], "T2": [17, 19], "B|*": [8, 9, 14], "S|UTF-8|lead8|*": [9, 12]}}},
    "stubs": ["as C01"],
    "outside_claim": ["layouts outside the listed templates"],
    "assumptions": [],
}

finding_key = e2e.finding_key("C14")


def J(template, n, flagsets=(0, 1), split=16, chunk=30):
    return {"name": f"{template}-{n}", "h": "e2e", "params": {"template": template, "lens": [n], "flagsets": list(flagsets)}, "split": split, "chunk": chunk,
            "max_paths": 300000}


def jobs(tier):
    if tier == "quick":
        return [J("T5", n) for n in (7, 8, 9, 10)] + [J("B|ref-raw-adj|3", 8), J("B|ref-raw-adj|3", 9), J("T1", 18, flagsets=(0,))] + \
            [{"name": "B|lookup|0-13-14", "h": "e2e", "params": {"template": "B|lookup|0", "lens": [13, 14], "flagsets": [0, 1]}, "split": 16, "chunk": 30, "max_paths": 300000},
             {"name": "T8-8-8", "h": "e2e", "params": {"template": "T8", "lens": [8, 8], "flagsets": [0]}, "split": 16, "chunk": 30, "max_paths": 300000},
             # the same framed packet object parsed twice through parse_ccsds_packet: the second parse accounts for its bits from a fresh cursor
             {"name": "T5-9-direct-twice", "h": "e2e", "params": {"template": "T5", "lens": [9], "flagsets": [1], "via": "direct-twice"}, "split": 16, "chunk": 30, "max_paths": 300000},
             {"name": "TI-10-direct-twice", "h": "e2e", "params": {"template": "TI", "lens": [10], "flagsets": [1], "via": "direct-twice"}, "split": 4, "chunk": 30, "max_paths": 300000},
             # a long stream: eleven packets one byte too long in a row, one clean, one too long - the n-th is accounted for like the first
             {"name": "TI-many", "h": "e2e", "params": {"template": "TI", "lens": [10] * 11 + [9, 10], "flagsets": [0, 1]}, "split": 4, "chunk": 30, "max_paths": 300000}]
    out = [{"name": "TI-many", "h": "e2e", "params": {"template": "TI", "lens": [10] * 11 + [9, 10] + [8] * 12 + [9], "flagsets": [0, 1]}, "split": 4, "chunk": 30, "max_paths": 300000}]
    out += [J("T5", n) for n in (7, 8, 9, 10, 11, 12)] + [J("T1", n) for n in (17, 18, 19, 20, 21)] + [J("T2", 17), J("T2", 19)]
    for src in ("fixed-odd", "lookup", "ref-raw-adj", "ref-cal"):
        for off in (0, 3, 7):
            out += [J(f"B|{src}|{off}", n) for n in (8, 9, 14)]
            out += [J(f"S|UTF-8|lead8|{src}|{off}", n) for n in (9, 12)]
    return out


def vacuity_jobs():
    return [{"name": "twin-T5", "h": "twin", "params": {"template": "T5", "lens": [9], "flagsets": [1]}, "max_paths": 20}]
