"""Inductive step for the framing loop (C02 deepening): covers streams of ANY number of packets.

The body of the `while True:` loop of the real ccsds_generator is lifted out of the function's AST (read from /repo's current source
on every run) into a function `step(state) -> (outcome, value, state')`: top-level `break` becomes `return ("break", ...)`, the
top-level `yield X` becomes `return ("yield", X, ...)`; nothing else is changed and the statements are compiled in the packets
module's namespace (so the same shims apply).  The harness starts the step from an ARBITRARY loop-head state that satisfies the
representation invariant Inv and proves that one iteration yields exactly the next packet and re-establishes Inv (or stops when the
source is exhausted).  Base case: the state the real function sets up before the loop satisfies Inv (checked by running the real
prologue).  Base + step = every well-formed stream, of any number of packets, is framed exactly, for the three source kinds.

Inv(state), with the stream cut into records of k prefix bytes + 6 header bytes + L data bytes:
   read_buffer is the contiguous stream slice [bo, bo+blen);  0 <= current_pos <= blen;
   n_bytes_parsed == bo + current_pos == stream offset of the next record;
   file:   the file position == bo + blen <= T and total_length_bytes == T
   bytes:  bo + blen == T and total_length_bytes == T (the whole input is buffered)
   socket: bytes delivered so far == bo + blen <= T and total_length_bytes is None
If a counterexample starts from a state no real history reaches, the invariant is too weak - that is a harness matter, not a finding.
"""
import ast
import inspect
import textwrap

import z3

from spv import lia
from spv.engine import EngineLimit
from spv.harness import Harness, result

STATE = ["n_bytes_parsed", "n_packets_parsed", "read_buffer", "current_pos", "total_length_bytes", "read_bytes_from_source", "buffer_read_size_bytes",
         "skip_header_bytes", "show_progress", "start_time", "binary_data"]


class _Lift(ast.NodeTransformer):
    def __init__(self):
        self.depth = 0
        self.yields = 0
        self.breaks = 0

    def _snap(self):
        return ast.parse("dict(locals())", mode="eval").body

    def visit_While(self, node):
        self.depth += 1
        self.generic_visit(node)
        self.depth -= 1
        return node

    visit_For = visit_While

    def visit_FunctionDef(self, node):     # nested defs are left alone
        return node

    def visit_Break(self, node):
        if self.depth == 0:
            self.breaks += 1
            return ast.Return(value=ast.Tuple(elts=[ast.Constant("break"), ast.Constant(None), self._snap()], ctx=ast.Load()))
        return node

    def visit_Expr(self, node):
        if isinstance(node.value, ast.Yield):
            if self.depth != 0:
                raise EngineLimit("yield inside a nested loop: loop body cannot be lifted")
            self.yields += 1
            return ast.Return(value=ast.Tuple(elts=[ast.Constant("yield"), node.value.value, self._snap()], ctx=ast.Load()))
        return node


def lift(packets):
    """-> (prologue function, step function) compiled from the current source of packets.ccsds_generator"""
    src = textwrap.dedent(inspect.getsource(packets.ccsds_generator))
    fn = ast.parse(src).body[0]
    idx = [i for i, n in enumerate(fn.body) if isinstance(n, ast.While) and isinstance(n.test, ast.Constant) and n.test.value is True]
    if len(idx) != 1:
        raise EngineLimit("ccsds_generator no longer has exactly one top-level `while True:` loop")
    loop = fn.body[idx[0]]
    lifter = _Lift()
    body = [lifter.visit(s) for s in loop.body]
    if lifter.yields != 1:
        raise EngineLimit(f"expected exactly one top-level yield in the packet loop, found {lifter.yields}")
    body.append(ast.parse('return ("continue", None, dict(locals()))').body[0])
    load = [ast.parse(f"{n} = S[{n!r}]").body[0] for n in STATE]
    step = ast.FunctionDef(name="_step", args=ast.arguments(posonlyargs=[], args=[ast.arg("S")], kwonlyargs=[], kw_defaults=[], defaults=[]),
                           body=load + body, decorator_list=[], type_params=[])
    # prologue = the real function up to the loop, returning its locals (the state the loop starts from)
    pro_body = [s for s in fn.body[:idx[0]] if not (isinstance(s, ast.Expr) and isinstance(s.value, ast.Constant))]
    pro = ast.FunctionDef(name="_prologue", args=fn.args, body=pro_body + [ast.parse("return dict(locals())").body[0]], decorator_list=[], type_params=[])
    mod = ast.Module(body=[pro, step], type_ignores=[])
    ast.fix_missing_locations(mod)
    g = dict(packets.__dict__)
    exec(compile(mod, "<lifted from packets.ccsds_generator>", "exec"), g)    # noqa: S102 - the library's own statements
    return g["_prologue"], g["_step"]


class Step(Harness):
    kind = "induct-step"
    validate = False          # a loop-head state cannot be installed in the real generator; the lifted statements ARE the library's statements

    def run(self, ctx):
        p = self.job["params"]
        kind, R = p["kind"], p["R"]
        bo, blen, cp, k, L, T = (z3.Int(x) for x in ("bo", "blen", "cp", "k", "L", "T"))
        ctx.assume(z3.And(bo >= 0, blen >= 0, cp >= 0, cp <= blen, k >= 0, k <= 2 ** 31, L >= 1, L <= 65536, T >= 0, bo + blen <= T, T <= 2 ** 40))
        n = bo + cp
        # 0: a complete next record exists; 1: the stream ends exactly here; with params["tail"] (C10: arbitrary finite sources) also
        # 2: what is left cannot hold prefix + header; 3: the header is there but the body it declares is cut short
        case = ctx.choose("case", 4 if p.get("tail") else 2)
        o = n + k
        if case == 0:
            ctx.assume(lia.sel(o + 4) * 256 + lia.sel(o + 5) == L - 1)
            ctx.assume(o + 6 + L <= T)
        elif case == 1:
            ctx.assume(n == T)
        elif case == 2:
            ctx.assume(z3.And(n < T, o + 6 > T))
        else:
            ctx.assume(lia.sel(o + 4) * 256 + lia.sel(o + 5) == L - 1)
            ctx.assume(z3.And(o + 6 <= T, o + 6 + L > T))
        r = None
        if kind == "bytes":
            ctx.assume(bo + blen == T)
            src, reader, total = lia.ViewBytes(0, T), self.bytes_reader, lia.LInt(T)
            rsize = None
        elif kind == "file":
            src = lia.SymFile(T, R)
            src.posn = bo + blen
            reader, total = src.read, lia.LInt(T)
            r = z3.Int("r")
            ctx.assume(z3.Or(r == -1, z3.And(r >= 1, r < 2 ** 31)))
            rsize = lia.LInt(r)
        else:
            src = lia.SymSocket(T, R, closed=bool(p.get("closed")))
            src._posn = bo + blen
            reader, total = src.recv, None
            r = z3.Int("r")
            ctx.assume(z3.And(r >= 1, r < 2 ** 31))
            rsize = lia.LInt(r)
        S = {"n_bytes_parsed": lia.LInt(n), "n_packets_parsed": 7, "read_buffer": lia.ViewBytes(bo, blen), "current_pos": lia.LInt(cp),
             "total_length_bytes": total, "read_bytes_from_source": reader, "buffer_read_size_bytes": rsize, "skip_header_bytes": lia.LInt(k),
             "show_progress": False, "start_time": 0, "binary_data": src}
        try:
            outcome, value, S2 = self.step(S)
        except lia.WouldBlock:
            outcome, value, S2 = "block", None, None
        except Exception as e:     # noqa: BLE001 - library outcome
            outcome, value, S2 = "exc:" + type(e).__name__, None, None
        obl = []
        if case >= 1:
            # nothing (or not enough for one more complete packet) left: sized sources and a socket closed by its peer stop, a socket whose
            # peer stays open blocks; nothing is yielded and no error escapes
            want = "block" if kind == "socket" and not p.get("closed") else "break"
            what = {1: "exhausted source", 2: "remainder shorter than prefix + header", 3: "declared body cut short"}[case]
            obl.append((f"{what}: the generator stops ({want}), nothing yielded, no error (outcome {outcome})", outcome == want))
            return result(f"end{case}:{outcome}" if case > 1 else f"end:{outcome}", obl, observe={"outcome": outcome}, inputs={})
        ok = outcome == "yield" and isinstance(value, self.SymRaw)
        obl.append((f"a complete next record is yielded (outcome {outcome})", ok))
        if ok:
            obl.append(("the yielded packet is exactly the next record's packet", z3.And(value.off == o, value.length == 6 + L)))
            rb, cp2, n2 = S2["read_buffer"], S2["current_pos"], S2["n_bytes_parsed"]
            okv = isinstance(rb, lia.ViewBytes)
            obl.append(("Inv': buffer is a stream slice", okv))
            if okv:
                c2, nn = lia.it(cp2), lia.it(n2)
                obl.append(("Inv': n_bytes_parsed advanced by prefix + packet", nn == n + k + 6 + L))
                obl.append(("Inv': n_bytes_parsed == buffer offset + cursor", rb.off + c2 == nn))
                obl.append(("Inv': 0 <= cursor <= buffered length", z3.And(c2 >= 0, c2 <= rb.length)))
                if kind == "file":
                    obl.append(("Inv': file position == end of buffer <= T", z3.And(src.posn == rb.off + rb.length, src.posn <= T)))
                elif kind == "socket":
                    obl.append(("Inv': delivered == end of buffer <= T", z3.And(src._posn == rb.off + rb.length, src._posn <= T)))
                else:
                    obl.append(("Inv': whole input buffered", rb.off + rb.length == T))
            tl = S2["total_length_bytes"]
            obl.append(("Inv': total length unchanged", (tl is None) if kind == "socket" else (isinstance(tl, lia.LInt) and z3.eq(z3.simplify(tl.t), z3.simplify(T)))))
            obl.append(("Inv': prefix and read size unchanged", S2["skip_header_bytes"] is S["skip_header_bytes"] and S2["buffer_read_size_bytes"] is S["buffer_read_size_bytes"]))
        return result(f"step:{outcome}", obl, observe={"outcome": outcome}, inputs={})

    @staticmethod
    def bytes_reader(_):
        return b""


class Base(Harness):
    """the state the real function sets up before the loop satisfies Inv (bo = 0, cursor 0, nothing parsed)"""
    kind = "induct-base"
    validate = False

    def run(self, ctx):
        kind = self.job["params"]["kind"]
        T = z3.Int("T")
        ctx.assume(z3.And(T >= 0, T <= 2 ** 40))
        if kind == "bytes":
            src = lia.ViewBytes(0, T)
        elif kind == "file":
            src = lia.SymFile(T, 4)
        else:
            src = lia.SymSocket(T, 4, closed=False)
        S = self.prologue(src)
        rb = S["read_buffer"]
        obl = [("n_bytes_parsed == 0", S["n_bytes_parsed"] == 0), ("cursor == 0", S["current_pos"] == 0), ("no prefix by default", S["skip_header_bytes"] == 0)]
        if kind == "bytes":
            obl += [("whole input buffered", isinstance(rb, lia.ViewBytes) and z3.is_true(z3.simplify(z3.And(rb.off == 0, rb.length == T)))),
                    ("total == T", isinstance(S["total_length_bytes"], lia.LInt) and z3.eq(z3.simplify(S["total_length_bytes"].t), T))]
        else:
            obl.append(("buffer empty", isinstance(rb, bytes) and rb == b""))
            if kind == "file":
                obl += [("total == T", isinstance(S["total_length_bytes"], lia.LInt) and z3.eq(z3.simplify(S["total_length_bytes"].t), T)),
                        ("file rewound", z3.is_true(z3.simplify(src.posn == 0))), ("default read size is the whole file", S["buffer_read_size_bytes"] == -1)]
            else:
                obl += [("total unknown", S["total_length_bytes"] is None), ("default read size 4096", S["buffer_read_size_bytes"] == 4096)]
        return result("base", obl, observe={}, inputs={})


def make(job):
    packets, SymRaw = lia.install()
    h = (Step if job["h"] == "induct-step" else Base)(job)
    h.packets, h.SymRaw = packets, SymRaw
    h.prologue, h.step = lift(packets)
    return h


def tail_jobs(tier):
    """C10: from any loop-head state satisfying Inv, an insufficient remainder stops the generator (bytes, file, socket closed by its peer)"""
    R = 3 if tier == "quick" else 5
    return [{"name": f"induct-tail-{kind}", "h": "induct-step", "params": {"kind": kind, "R": R, "tail": True, "closed": True}, "split": 8, "chunk": 20, "max_paths": 60000,
             "must_reach": ["step:yield", "end:break", "end2:break", "end3:break"]} for kind in ("bytes", "file", "socket")]


def jobs(tier):
    R = 3 if tier == "quick" else 5
    out = []
    for kind in ("bytes", "file", "socket"):
        out.append({"name": f"induct-base-{kind}", "h": "induct-base", "params": {"kind": kind}, "must_reach": ["base"]})
        out.append({"name": f"induct-step-{kind}", "h": "induct-step", "params": {"kind": kind, "R": R}, "split": 4, "chunk": 20, "max_paths": 60000,
                    "must_reach": ["step:yield", "end:block" if kind == "socket" else "end:break"]})
    return out
