"""Path-forking executor: runs the repository's real code objects on solver-backed proxy values.

One *path* = one ordinary CPython execution of the harness (and through it of the library code) in which every
`fork(cond)` / `pick(term)` request made by a proxy is answered either from a recorded decision prefix or by
asking z3 which answers are feasible under the path condition; alternatives are queued and explored by
re-execution.  A harness returns, per path, labelled formulas to be *proved* under the path condition.

Verdict vocabulary (see DESIGN.md §3/§6):
  proved        check(pc ∧ ¬goal) == unsat
  failed        == sat  (model kept, concretised by the harness, replayed on the unpatched library by the driver)
  unknown       anything else -> the run is inconclusive, never success
"""
import time
import traceback

import z3


class Infeasible(BaseException):
    """The recorded prefix (or an assumption) is unsatisfiable: not a path."""


class Cut(BaseException):
    """The path leaves the stated bounds of the harness; counted and reported, outside the claim."""
    def __init__(self, reason):
        super().__init__(reason)
        self.reason = reason


class EngineLimit(BaseException):
    """A proxy was asked for something it does not model, or the BV width would be exceeded: inconclusive.
    Derives from BaseException so library `except Exception` blocks cannot swallow it."""


class Ctx:
    cur = None
    RLIMIT = 40_000_000          # z3 resource units per query (deterministic, unlike wall-clock timeouts)
    TIMEOUT_MS = 120_000         # backstop only
    MAX_DECISIONS = 4000

    def __init__(self, prefix=()):
        self.prefix = list(prefix)
        self.i = 0
        self.decisions = []
        self.s = z3.Solver()
        self.s.set("rlimit", self.RLIMIT)
        self.s.set("timeout", self.TIMEOUT_MS)
        self.pending = []
        self.queries = 0
        self.qtime = 0.0
        self.guards = []           # no-overflow side conditions not yet discharged
        self.guards_checked = 0
        self.notes = {}
        self.warnings = []         # recorded warnings.warn categories/messages (stubbed `warnings`)
        self.unknowns = 0
        self.lazy_axioms = 0

    # ---------------------------------------------------------------- solver access
    def check(self, *extra):
        t = time.perf_counter()
        r = self.s.check(*extra)
        self.qtime += time.perf_counter() - t
        self.queries += 1
        if r == z3.unknown:
            self.unknowns += 1
        return r

    def add(self, *conds):
        self.s.add(*conds)

    def assume(self, cond):
        """Precondition of the harness.  Placed before the code it constrains."""
        self.s.add(cond)

    def guard(self, cond):
        """Side condition under which a BV operation agrees with Python's unbounded int."""
        cond = z3.simplify(cond)
        if z3.is_true(cond):
            return
        self.guards.append(cond)

    def flush_guards(self):
        if not self.guards:
            return
        g = self.guards
        self.guards = []
        r = self.check(z3.Or([z3.Not(c) for c in g]))
        self.guards_checked += len(g)
        if r != z3.unsat:
            raise EngineLimit(f"BV width bound may be exceeded ({r}): {str(g[0])[:200]}")

    # ---------------------------------------------------------------- decisions
    def _next(self):
        if len(self.decisions) >= self.MAX_DECISIONS:
            raise Cut("per-path decision cap")

    def fork(self, cond):
        if isinstance(cond, bool):
            return cond
        cond = z3.simplify(cond)
        if z3.is_true(cond):
            return True
        if z3.is_false(cond):
            return False
        fmemo = self.__dict__.setdefault("_forked", {})
        hit = fmemo.get(cond.get_id())
        if hit is not None:          # the same condition was decided earlier on this path
            return hit[1]
        self.flush_guards()
        self._next()
        if self.i < len(self.prefix):
            d = self.prefix[self.i]
            if not isinstance(d, bool):
                raise EngineLimit(f"non-deterministic replay: expected fork, prefix has {d!r}")
        else:
            rt = self.check(cond)
            rf = self.check(z3.Not(cond))
            if rt == z3.unknown or rf == z3.unknown:
                raise EngineLimit("solver returned unknown on a branch feasibility query")
            can_t, can_f = rt == z3.sat, rf == z3.sat
            if can_t and can_f:
                d = True
                self.pending.append(self.decisions + [False])
            elif can_t:
                d = True
            elif can_f:
                d = False
            else:
                raise Infeasible()
        self.i += 1
        self.decisions.append(d)
        self.s.add(cond if d else z3.Not(cond))
        fmemo[cond.get_id()] = (cond, d)
        return d

    def pick(self, t):
        """Choose a feasible concrete value for integer/BV term t and fork on 'any other value'."""
        t = z3.simplify(t)
        if z3.is_bv_value(t):
            return t.as_signed_long()
        if z3.is_int_value(t):
            return t.as_long()
        memo = self.__dict__.setdefault("_picked", {})
        hit = memo.get(t.get_id())
        if hit is not None:          # the same term was given a value earlier on this path (a function of the path's history: replays agree)
            return hit[1]
        self.flush_guards()
        self._next()
        excluded = []
        if self.i < len(self.prefix):
            d = self.prefix[self.i]
            if isinstance(d, bool):
                raise EngineLimit("non-deterministic replay: expected pick, prefix has a fork")
            if d[0] == "pick":
                self.i += 1
                self.decisions.append(d)
                self.s.add(t == d[1])
                memo[t.get_id()] = (t, d[1])
                return d[1]
            excluded = list(d[1])
        for e in excluded:
            self.s.add(t != e)
        r = self.check()
        if r == z3.unsat:
            raise Infeasible()
        if r != z3.sat:
            raise EngineLimit("solver returned unknown while picking a value")
        v = self.s.model().eval(t, model_completion=True)
        v = v.as_signed_long() if z3.is_bv_value(v) else v.as_long()
        self.pending.append(self.decisions + [("exclude", excluded + [v])])
        self.i += 1
        self.decisions.append(("pick", v))
        self.s.add(t == v)
        memo[t.get_id()] = (t, v)
        return v

    def choose(self, name, n):
        """Symbolic choice among n alternatives (a configuration variable), decided by binary splitting so that the
        alternatives form a balanced fork tree (parallelisable, O(log n) decisions per path)."""
        v = z3.Int(name)
        self.s.add(v >= 0, v < n)
        lo, hi = 0, n
        while hi - lo > 1:
            mid = (lo + hi) // 2
            if self.fork(v < mid):
                hi = mid
            else:
                lo = mid
        self.s.add(v == lo)
        return lo

    def model(self):
        r = self.check()
        if r != z3.sat:
            return None
        return self.s.model()


MAX_FAILED = 40


class PathResult:
    """What a harness returns for one path."""
    def __init__(self, cls, obligations=(), observe=None, describe=None):
        self.cls = cls                      # outcome class label, e.g. "parsed", "ValueError", "unrecognized"
        self.obligations = list(obligations)  # [(label, z3 Bool to prove)]
        self.observe = observe or {}        # name -> z3 term or concrete python value (for cross-validation)
        self.describe = describe            # callable(model) -> jsonable description of a witness input


def explore(harness, root_prefix=(), max_paths=200000, seed_only=None, deadline=None):
    """Run harness over all paths below root_prefix.

    harness.run(ctx) -> PathResult.  harness.concretize(model, path_result) -> jsonable dict (request for the
    concrete worker).  harness.validate (bool) requests cross-validation data.
    Returns a jsonable dict of statistics; with seed_only=N stops after N paths and returns the unexplored
    prefixes in 'leftover' (used to split one job over several processes).
    """
    work = [list(root_prefix)]
    st = dict(paths=0, decisions=0, queries=0, solver_time=0.0, obligations=0, discharged=0, failed=[], unknown=0,
              classes={}, cuts={}, engine_errors=[], validate=[], samples=[], leftover=[], guards=0, lazy_axioms=0,
              infeasible=0, second={"checked": 0})
    stride = max(1, getattr(harness, "validate_stride", 1))
    while work:
        if len(st["failed"]) >= MAX_FAILED:
            st["engine_errors"].append(f"stopped after {MAX_FAILED} counterexamples with {len(work)} prefixes unexplored")
            break
        if seed_only is not None and st["paths"] >= seed_only:
            st["leftover"] = work
            break
        if deadline is not None and time.time() > deadline:
            st["engine_errors"].append(f"time budget exceeded with {len(work)} prefixes unexplored")
            break
        if st["paths"] >= max_paths:
            st["engine_errors"].append(f"path cap {max_paths} reached with {len(work)} prefixes unexplored")
            break
        prefix = work.pop()
        ctx = Ctx(prefix)
        Ctx.cur = ctx
        res = None
        try:
            res = harness.run(ctx)
            ctx.flush_guards()
        except Infeasible:
            st["infeasible"] += 1
            continue
        except Cut as c:
            st["cuts"][c.reason] = st["cuts"].get(c.reason, 0) + 1
            res = None
        except EngineLimit as e:
            st["engine_errors"].append(f"EngineLimit: {e} @decisions={ctx.decisions[-6:]}")
            res = None
        except Exception as e:   # a harness bug or an engine exception, never a library outcome (harness classifies those)
            st["engine_errors"].append("harness exception: " + "".join(traceback.format_exception_only(type(e), e)).strip()
                                       + " | " + traceback.format_exc(limit=-4).replace("\n", " / ")[-700:])
            res = None
        finally:
            work.extend(ctx.pending)
            st["queries"] += ctx.queries
            st["solver_time"] += ctx.qtime
            st["decisions"] += len(ctx.decisions)
            st["guards"] += ctx.guards_checked
            st["lazy_axioms"] += ctx.lazy_axioms
            Ctx.cur = None
        if res is None:
            continue
        st["paths"] += 1
        st["classes"][res.cls] = st["classes"].get(res.cls, 0) + 1
        q0, t0 = ctx.queries, ctx.qtime
        Ctx.cur = ctx
        try:
            for label, goal in res.obligations:
                if len(st["failed"]) >= MAX_FAILED:
                    break          # enough counterexamples for this job; the run is a violation (or inconclusive) anyway
                st["obligations"] += 1
                r = ctx.check(z3.Not(goal)) if not isinstance(goal, bool) else (z3.unsat if goal else z3.sat)
                if r == z3.unsat:
                    st["discharged"] += 1
                    sstride = getattr(harness, "second_stride", 0)
                    if sstride and not isinstance(goal, bool):
                        st["second"]["seen"] = st["second"].get("seen", 0) + 1
                    if sstride and not isinstance(goal, bool) and st["second"]["seen"] % sstride == 1 and st["second"]["checked"] < getattr(harness, "second_cap", 40):
                        st["second"]["checked"] += 1
                        for name, v in second_opinion(ctx, goal).items():
                            key = name + ":" + ("agree" if v == "unsat" else "DISAGREE" if v == "sat" else v)
                            st["second"][key] = st["second"].get(key, 0) + 1
                            if v == "sat":
                                st["engine_errors"].append(f"second solver {name} says sat where z3 5.1 says unsat for obligation {label!r}")
                elif r == z3.sat:
                    # prefer a counterexample that also satisfies the witness-diversifying soft constraints
                    softs = harness.soft(res) if hasattr(harness, "soft") else []
                    neg = [] if isinstance(goal, bool) else [z3.Not(goal)]
                    if softs and ctx.check(*neg, *softs) == z3.sat:
                        m = ctx.s.model()
                    elif ctx.check(*neg) == z3.sat:
                        m = ctx.s.model()
                    else:
                        m = None
                    try:
                        req = harness.concretize(m, res)
                    except Exception as e:
                        req = {"error": f"concretize failed: {e!r}"}
                    st["failed"].append({"label": label, "cls": res.cls, "request": req})
                else:
                    st["unknown"] += 1
            want_val = getattr(harness, "validate", True) and (st["paths"] - 1) % stride == 0
            want_sample = len(st["samples"]) < 3
            if want_val or want_sample:
                m = model_with_soft(ctx, harness.soft(res) if hasattr(harness, "soft") else [])
                if m is not None:
                    try:
                        req = harness.concretize(m, res)
                        if want_sample:
                            st["samples"].append({"class": res.cls, "decisions": len(ctx.decisions), "witness": req})
                        if want_val:
                            st["validate"].append(req)
                    except Exception as e:
                        st["engine_errors"].append(f"concretize failed: {e!r} " + traceback.format_exc(limit=-3).replace("\n", " / ")[-500:])
        finally:
            Ctx.cur = None
            st["queries"] += ctx.queries - q0
            st["solver_time"] += ctx.qtime - t0
    return st


def second_opinion(ctx, goal, timeout_s=20):
    """Re-decide one discharged obligation (path condition AND NOT goal, expected unsat) with two other solvers:
    the cvc5 1.0 binary and /usr/bin/z3 4.8.12.  -> {'cvc5': verdict, 'z3-4.8.12': verdict}; any '(error' line is 'error'."""
    import os
    import subprocess
    import tempfile
    t = z3.Solver()
    t.add(ctx.s.assertions())
    t.add(z3.Not(goal))
    txt = "(set-logic ALL)\n" + t.to_smt2().replace("ubv_to_int", "bv2nat")
    fd, path = tempfile.mkstemp(prefix="spv_q_", suffix=".smt2")
    out = {}
    try:
        with os.fdopen(fd, "w") as f:
            f.write(txt)
        for name, cmd in (("cvc5", ["cvc5", f"--tlimit={timeout_s * 1000}", path]), ("z3-4.8.12", ["/usr/bin/z3", f"-T:{timeout_s}", path])):
            try:
                r = subprocess.run(cmd, capture_output=True, text=True, timeout=timeout_s + 10)
                o = (r.stdout + r.stderr).strip()
                if "(error" in o or "Parse Error" in o:
                    out[name] = "error"
                else:
                    first = o.splitlines()[0].strip() if o else "unknown"
                    out[name] = first if first in ("sat", "unsat") else "unknown"
            except (subprocess.TimeoutExpired, FileNotFoundError):
                out[name] = "unknown"
    finally:
        os.unlink(path)
    return out


def model_with_soft(ctx, softs):
    """A model of the path condition that also satisfies as many witness-diversifying soft constraints as possible
    (so that cross-validation does not only ever see all-zero inputs).  Does not change the path condition."""
    if not softs:
        return ctx.model()
    if ctx.check(*softs) == z3.sat:
        return ctx.s.model()
    kept = []
    for c in softs:
        if ctx.check(*kept, c) == z3.sat:
            kept.append(c)
    if ctx.check(*kept) == z3.sat:
        return ctx.s.model()
    return None


def merge_stats(a, b):
    for k in ("paths", "decisions", "queries", "solver_time", "obligations", "discharged", "unknown", "guards", "lazy_axioms",
              "infeasible"):
        a[k] = a.get(k, 0) + b.get(k, 0)
    for k in ("failed", "engine_errors", "validate"):
        a.setdefault(k, []).extend(b.get(k, []))
    for k in ("classes", "cuts"):
        d = a.setdefault(k, {})
        for kk, v in b.get(k, {}).items():
            d[kk] = d.get(kk, 0) + v
    sa, sb = a.setdefault("second", {}), b.get("second", {})
    for kk, v in sb.items():
        sa[kk] = sa.get(kk, 0) + v
    s = a.setdefault("samples", [])
    for x in b.get("samples", []):
        if len(s) < 4:
            s.append(x)
    return a
