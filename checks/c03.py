"""C03 - bit-cursor reads return exactly the addressed bits and advance by the width.

Real code executed: RawPacketData.read_as_int / read_as_bytes (class re-hosted on SymBytes) and _extract_bits.
Oracle: written per bit (bit n-1-i of the result is bit 7-((p+i) mod 8) of byte (p+i) div 8), not as shift-and-mask.
"""
import z3

from spv import bv
from spv.engine import Ctx
from spv.harness import Harness, result

META = {
    "level": "model_checking",
    "claim": "For every buffer content of 1..10 bytes (thorough: 1..16) and every cursor/width pair inside the buffer, z3 proves that the real "
             "read_as_int/read_as_bytes/_extract_bits return the per-bit specified value, advance the cursor by the width and leave the buffer "
             "unchanged; additionally with cursor and width themselves symbolic on 4 (thorough 6, 8) byte buffers. Bounded model checking "
             "of the real code: all bit patterns are covered by the solver, buffer sizes beyond the bound are not.",
    "trusted": "z3; the BV proxies for int/bytes (cross-validated on every path against the unpatched library in a separate process); "
               "CPython's int.from_bytes/to_bytes and slicing as modelled",
    "bounds": {
        "quick": {"A": "buffers 1..10 bytes, every (p, n) with p+n <= 8*len, n = 0 included (all contents symbolic)",
                  "B": "buffer 4 bytes, p and n symbolic with p+n <= 32"},
        "thorough": {"A": "buffers 1..16 bytes, every (p, n)", "B": "buffers of 6 and 8 bytes, p and n symbolic"},
    },
    "stubs": ["int.from_bytes / int.to_bytes: positional big-endian value (modelled exactly)", "bytes slicing: list slicing of symbolic bytes"],
    "outside_claim": ["buffers longer than the bound (in particular widths above 14 284 bits, where CPython refuses to render the integer as decimal text: a debug f-string on the value would raise there - not modelled, z3's own Python API hits the same limit)", "reads with p+n beyond the buffer (C14)", "negative n (C14)"],
    "assumptions": ["CPython int/bytes semantics as modelled by the BV proxies (cross-validated per path against the unpatched library)"],
}


def bufbit(items, k):
    """bit k of the buffer (0 = MSB of byte 0) as a 1-bit term"""
    b = bv.byte_term(items[k // 8])
    return z3.Extract(7 - k % 8, 7 - k % 8, b)


def spec_bits(items, p, n):
    """n-bit term: the addressed bits, most significant first (None for n == 0)"""
    if n == 0:
        return None
    bits = [bufbit(items, p + i) for i in range(n)]
    return bits[0] if n == 1 else z3.Concat(*bits)


class HarnessA(Harness):
    kind = "reads-enumerated"

    def run(self, ctx):
        lib = self.lib
        L = self.job["params"]["L"]
        W = bv.W
        buf = bv.fresh_bytes("B", L)
        obl, reads = [], []
        obs_int, obs_bytes = [], []
        for p in range(0, 8 * L + 1):
            for n in range(0, 8 * L - p + 1):
                sb = spec_bits(buf.items, p, n)
                # ---- read_as_int
                raw = lib.RawPacketData(buf)
                raw.pos = p
                try:
                    v = raw.read_as_int(n)
                except Exception as e:     # noqa: BLE001 - an in-range read must not raise
                    return result("exc:" + type(e).__name__, [(f"int read p={p} n={n} raises nothing", False)], observe={},
                                  inputs={"buf": buf, "reads": [[p, n]], "only": "int"})
                vt = v.t if isinstance(v, bv.SymInt) else z3.BitVecVal(v, W)
                if n == 0:
                    obl.append((f"int value p={p} n=0", vt == 0))
                else:
                    obl.append((f"int value p={p} n={n}", z3.And(z3.Extract(n - 1, 0, vt) == sb, z3.Extract(W - 1, n, vt) == 0)))
                obl.append((f"int cursor p={p} n={n}", raw.pos == p + n if isinstance(raw.pos, int) else False))
                obl.append((f"int buffer unchanged p={p} n={n}", all(a is b or (not isinstance(a, int) and z3.eq(a, b)) or a == b
                                                                       for a, b in zip(raw.items, buf.items)) and len(raw.items) == L))
                # ---- read_as_bytes
                raw2 = lib.RawPacketData(buf)
                raw2.pos = p
                try:
                    b = raw2.read_as_bytes(n)
                except Exception as e:     # noqa: BLE001
                    return result("exc:" + type(e).__name__, [(f"bytes read p={p} n={n} raises nothing", False)], observe={},
                                  inputs={"buf": buf, "reads": [[p, n]], "only": "bytes"})
                nb = (n + 7) // 8
                ok_len = isinstance(b, bv.SymBytes) and len(b) == nb
                obl.append((f"bytes length p={p} n={n}", bool(ok_len)))
                if ok_len and n > 0:
                    word = b.word(8 * nb)
                    val = sb if 8 * nb == n else z3.ZeroExt(8 * nb - n, sb)
                    obl.append((f"bytes value p={p} n={n}", word == val))
                obl.append((f"bytes cursor p={p} n={n}", raw2.pos == p + n if isinstance(raw2.pos, int) else False))
                reads.append([p, n])
                obs_int.append(v)
                obs_bytes.append(b)
        return result("ok", obl, observe={"ints": obs_int, "bytes": obs_bytes}, inputs={"buf": buf, "reads": reads})


class HarnessB(Harness):
    kind = "reads-symbolic"

    def run(self, ctx):
        lib = self.lib
        L = self.job["params"]["L"]
        as_bytes = self.job["params"]["as_bytes"]
        W = bv.W
        buf = bv.fresh_bytes("B", L)
        p = z3.BitVec("p", W)
        n = z3.BitVec("n", W)
        ctx.assume(z3.And(p >= 0, n >= 0, p + n <= 8 * L, p <= 8 * L, n <= 8 * L))
        raw = lib.RawPacketData(buf)
        raw.pos = bv.SymInt(p, nb=8, nonneg=True)
        ns = bv.SymInt(n, nb=8, nonneg=True)
        # the whole buffer as one word; bit k (0 = MSB of byte 0) is Extract at 8L-1-k
        Bw = buf.word(W)
        obl = []
        try:
            out = raw.read_as_bytes(ns) if as_bytes else raw.read_as_int(ns)
        except Exception as e:     # noqa: BLE001 - an in-range read must not raise
            return result("exc:" + type(e).__name__, [("in-range read raises nothing", False)], observe={},
                          inputs={"buf": buf, "p": bv.SymInt(p), "n": bv.SymInt(n), "as_bytes": as_bytes})
        if as_bytes:
            nbytes = len(out)
            obl.append(("bytes length", (n + 7) / 8 == nbytes))
            vt = out.word(W)
        else:
            vt = out.t if isinstance(out, bv.SymInt) else z3.BitVecVal(out, W)
        # per-bit oracle with symbolic indices: result bit i (from the LSB) is buffer bit p+n-1-i for i < n, else 0
        one = z3.BitVecVal(1, W)
        for i in range(8 * L + 1):
            k = p + n - 1 - i                        # buffer bit index
            src = z3.LShR(Bw, (8 * L - 1) - k) & one
            res = z3.LShR(vt, i) & one
            obl.append((f"bit {i}", res == z3.If(z3.BitVecVal(i, W) < n, src, z3.BitVecVal(0, W))))
        obl.append(("no high bits", z3.LShR(vt, 8 * L) == 0))
        pos = raw.pos
        obl.append(("cursor", (pos.t if isinstance(pos, bv.SymInt) else z3.BitVecVal(pos, W)) == p + n))
        obl.append(("buffer unchanged", len(raw.items) == L and all(z3.eq(a, b) for a, b in zip(raw.items, buf.items))))
        return result("ok", obl, observe={"out": out, "pos": pos},
                      inputs={"buf": buf, "p": bv.SymInt(p), "n": bv.SymInt(n), "as_bytes": as_bytes})


class Twin(HarnessB):
    """reachability twin: the same run with a final `False` obligation must come back violated"""
    def run(self, ctx):
        r = super().run(ctx)
        r.obligations = [("reachability twin", z3.BoolVal(False))]
        return r


def make(job):
    width = 8 * job["params"]["L"] + 64
    lib = bv.install(width)
    h = {"A": HarnessA, "B": HarnessB, "twin": Twin}[job["h"]](job)
    h.lib = lib
    return h


def jobs(tier):
    out = []
    maxL = 10 if tier == "quick" else 16
    for L in range(1, maxL + 1):
        out.append({"name": f"A-L{L}", "h": "A", "params": {"L": L}, "must_reach": ["ok"]})
    for L in ([4] if tier == "quick" else [6, 8]):
        for ab in (False, True):
            out.append({"name": f"B-L{L}-{'bytes' if ab else 'int'}", "h": "B", "params": {"L": L, "as_bytes": ab}, "must_reach": ["ok"],
                        "split": 8})
    return out


def vacuity_jobs():
    return [{"name": "twin-L2", "h": "twin", "params": {"L": 2, "as_bytes": False}}]


# ----------------------------------------------------------------------------------------------- concrete side
def concrete(req):
    from space_packet_parser.packets import RawPacketData
    from spv.obs import enc_concrete
    i = req["input"]
    buf = bytes.fromhex(i["buf"]["hex"])
    if req["kind"] == "reads-enumerated":
        ints, bs = [], []
        for p, n in i["reads"]:
            r = RawPacketData(buf)
            r.pos = p
            try:
                ints.append(r.read_as_int(n))
            except Exception as e:   # noqa: BLE001
                ints.append("exc:" + type(e).__name__)
            r = RawPacketData(buf)
            r.pos = p
            try:
                bs.append(r.read_as_bytes(n))
            except Exception as e:   # noqa: BLE001
                bs.append("exc:" + type(e).__name__)
        cls = next((x for x in ints + bs if isinstance(x, str) and x.startswith("exc:")), "ok")
        return {"cls": cls, "ints": enc_concrete(ints), "bytes": enc_concrete(bs)}
    r = RawPacketData(buf)
    r.pos = i["p"]
    try:
        out = r.read_as_bytes(i["n"]) if i["as_bytes"] else r.read_as_int(i["n"])
    except Exception as e:   # noqa: BLE001
        return {"cls": type(e).__name__}
    return {"cls": "ok", "out": enc_concrete(out), "pos": r.pos}


def finding_key(f, req, got):
    import re
    return "C03:" + re.sub(r"[ =]?\d+", "", f["label"].split(" p=")[0])


def judge(req, got):
    """Independent concrete oracle (string of bits), used only to confirm a counterexample on the real code."""
    i = req["input"]
    buf = bytes.fromhex(i["buf"]["hex"])
    bits = "".join(f"{b:08b}" for b in buf)
    if got.get("cls") in ("WORKER-ERROR", "WORKER-DIED"):
        return "error", str(got)[:300]
    if req["kind"] == "reads-enumerated":
        for k, (p, n) in enumerate(i["reads"]):
            want = int(bits[p:p + n], 2) if n else 0
            if got["ints"][k] != want:
                return "reproduced", f"read_as_int p={p} n={n} on {buf.hex()}: expected {want}, got {got['ints'][k]}"
            wb = want.to_bytes((n + 7) // 8, "big").hex()
            if got["bytes"][k] != {"hex": wb}:
                return "reproduced", f"read_as_bytes p={p} n={n} on {buf.hex()}: expected {wb}, got {got['bytes'][k]}"
        return "not-reproduced", "all reads agree with the bit-string oracle (cursor/buffer obligations are not replayed)"
    p, n = i["p"], i["n"]
    want = int(bits[p:p + n], 2) if n else 0
    if got.get("cls") != "ok":
        return "reproduced", f"p={p} n={n} on {buf.hex()}: raised {got.get('cls')}"
    exp = {"hex": want.to_bytes((n + 7) // 8, "big").hex()} if i["as_bytes"] else want
    if got["out"] != exp or got["pos"] != p + n:
        return "reproduced", f"p={p} n={n} on {buf.hex()}: expected {exp} pos {p + n}, got {got['out']} pos {got['pos']}"
    return "not-reproduced", "agrees with the bit-string oracle"
