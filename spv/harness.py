"""Harness base: a harness executes the real code on proxies for one path and returns a PathResult.

PathResult.observe   what the symbolic run says the implementation produces (terms / proxies / concrete values)
PathResult.spec      what the property's oracle prescribes (same keys where both apply)
inputs (set by run)  name -> term / proxy; concretised with the model into the request for the unpatched worker
"""
from . import obs
from .engine import PathResult


class Harness:
    kind = "generic"
    validate = True
    validate_stride = 1

    def __init__(self, job):
        self.job = job

    def run(self, ctx) -> PathResult:
        raise NotImplementedError

    def soft(self, res):
        """witness diversification: prefer pseudo-random contents for every free input byte"""
        import hashlib
        import os
        import z3
        from . import bv
        seed = os.environ.get("VERIF_SEED", "0")
        out = []

        def walk(x):
            if isinstance(x, bv.SymBytes):
                for it in x.items:
                    if not isinstance(it, int) and z3.is_const(it) and it.decl().kind() == z3.Z3_OP_UNINTERPRETED:
                        h = hashlib.sha256(f"{seed}:{self.job.get('name')}:{it}".encode()).digest()[0]
                        out.append(it == h)
            elif isinstance(x, dict):
                for v in x.values():
                    walk(v)
            elif isinstance(x, (list, tuple)):
                for v in x:
                    walk(v)
        walk(getattr(res, "inputs", {}))
        return out

    def concretize(self, model, res):
        req = {"kind": self.kind, "job": self.job.get("name"), "params": self.job.get("params", {}),
               "input": obs.ev(model, getattr(res, "inputs", {})),
               "expect": obs.ev(model, res.observe)}
        spec = getattr(res, "spec", None)
        if spec is not None:
            req["spec"] = obs.ev(model, spec)
        if getattr(res, "skip_validation", False):
            req["skip_validation"] = True
        return req


def result(cls, obligations=(), observe=None, spec=None, inputs=None, skip_validation=False):
    r = PathResult(cls, obligations, observe)
    r.observe = dict(observe or {})
    r.observe.setdefault("cls", cls)
    r.spec = spec
    r.inputs = inputs or {}
    r.skip_validation = skip_validation
    return r


def run_library(fn, *expected_exceptions):
    """Call fn(); classify a library exception.  Returns (value, exception-class-name or None).
    Engine exceptions (BaseException subclasses) propagate."""
    try:
        return fn(), None
    except Exception as e:    # noqa: BLE001 - library outcome, classified by the caller
        return e, type(e).__name__
