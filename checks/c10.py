"""C10 - framing terminates on every finite source and yields only complete packets.

Same machinery as C02 (checks/c02.py, class Arbitrary) with the stream UNCONSTRAINED: every cell of the stream array is
an arbitrary byte, the total length T is symbolic in 0..2^31 (the producer dying at any offset, empty input included).
"""
from checks import c02
from checks.c02 import concrete, judge  # noqa: F401  (same harness classes / concrete side)


def make(job):
    if job["h"].startswith("induct"):
        from checks import induct
        return induct.make(job)
    return c02.make(job)

META = {
    "level": "model_checking",
    "claim": "For an arbitrary byte stream of symbolic total length 0..2^31 supplied as bytes, as a file (symbolic read size or default) or "
             "as a socket closed by its peer (every recv() chunk size symbolic), z3 proves on every explored path of the real "
             "ccsds_generator, for the first NP+1 yields (quick NP=2, thorough NP=3): each yield is the slice (o_i, n_i) with n_i = 7 + the "
             "length field at o_i+4, consecutive, and entirely inside the input; when the generator stops the remainder is shorter than a "
             "header or than the packet its header declares; no exception escapes. Non-termination shows up as a yield that is not a "
             "complete packet (the loop can only continue by yielding) or as the per-path decision cap, and is confirmed by a replay "
             "with a timeout.  INDUCTIVE STEP (checks/induct.py, any number of packets): the body of the framing loop, lifted from the function's AST, is run "
             "from an ARBITRARY loop-head state satisfying the representation invariant; z3 proves that a complete next record is yielded exactly and "
             "re-establishes the invariant, and that when what is left is empty, shorter than prefix + header, or a header whose declared body is cut "
             "short, the generator stops without yielding and without an error (bytes, file, socket closed by its peer).  Every finite byte string is "
             "some complete records followed by such a remainder, so framing terminates on it after yielding exactly those records.",
    "trusted": "as C02; in addition the closed-socket contract recv() -> b'' after T bytes",
    "bounds": {"quick": {"yields explored": 3, "R (source reads per packet)": 4, "T": "0..2^31", "prefix": "0 (and 3 in one job)"},
               "thorough": {"yields explored": "4 with R = 4; 2 with R = 7", "R (source reads per packet)": "4 / 7", "T": "0..2^31", "prefix": "0 and 3"}},
    "stubs": c02.META["stubs"][:1] + ["socket closed by peer: recv(n) -> chunk of symbolic size 1..min(n, rest), then b''"],
    "outside_claim": ["behaviour after the first NP+1 yields of one run", "more than R source reads per packet",
                      "termination of the definition-level generator beyond what follows from the framer (C11/C14 cover parsing)"],
    "assumptions": c02.META["assumptions"],
}


def jobs(tier):
    q = tier == "quick"
    NP, R = (2, 4) if q else (3, 4)
    out = []
    for kind in ("bytes", "file", "socket"):
        for rmode in (("default",) if kind == "bytes" else ("default", "sym")):
            out.append({"name": f"arb-{kind}-{rmode}", "h": "arbitrary", "params": {"kind": kind, "NP": NP, "R": R, "rmode": rmode},
                        "must_reach": ["stop/0", "stop/1", f"more/{NP + 1}"], "split": 4, "chunk": 20, "max_paths": 400000})
            if not q and kind != "bytes":
                # more source reads per packet (deeper fragmentation), fewer yields
                out.append({"name": f"arb-{kind}-{rmode}-R7", "h": "arbitrary", "params": {"kind": kind, "NP": 1, "R": 7, "rmode": rmode},
                            "must_reach": ["stop/0", "stop/1"], "split": 4, "chunk": 20, "max_paths": 400000})
    # a record prefix of SYMBOLIC length up to 32 MiB: the cursor can pass the 20 MB buffer-trim mark while packets are still being framed
    out.append({"name": "arb-file-sym-prefix-sym", "h": "arbitrary", "params": {"kind": "file", "NP": 1, "R": R, "rmode": "sym", "k": "sym"},
                "must_reach": ["stop/0", "stop/1"], "split": 4, "chunk": 20, "max_paths": 400000})
    if not q:
        out.append({"name": "arb-socket-sym-prefix-sym", "h": "arbitrary", "params": {"kind": "socket", "NP": 1, "R": R, "rmode": "sym", "k": "sym"},
                    "must_reach": ["stop/0", "stop/1"], "split": 4, "chunk": 20, "max_paths": 400000})
    out.append({"name": "arb-file-sym-prefix3", "h": "arbitrary", "params": {"kind": "file", "NP": 1 if q else 2, "R": R, "rmode": "sym", "k": 3},
                "must_reach": ["stop/0", "stop/1"], "split": 4, "chunk": 20})
    from checks import induct
    out += induct.tail_jobs(tier)
    out.append({"name": "arb-file-viadef", "h": "arbitrary", "params": {"kind": "file", "NP": 1 if q else 2, "R": R, "rmode": "default", "via_def": True},
                "must_reach": ["stop/0", "stop/1"], "split": 4, "chunk": 20})
    return out


def vacuity_jobs():
    return [{"name": "twin-arb", "h": "arbitrary-twin", "params": {"kind": "bytes", "NP": 1, "R": 3, "rmode": "default"}}]


def finding_key(f, req, got):
    p = req.get("params", {})
    i = req.get("input", {})
    lab = f["label"]
    if "yield" in lab or "remainder" in lab or "internal error" in lab:
        return f"C10:{p.get('kind')}-source:truncated-or-empty-input"
    return f"C10:{p.get('kind')}:{lab}"
