"""Driver:  ./check <Cxx> [--tier quick|thorough] [--replay file]

exit 0  every obligation on every explored path discharged, vacuity guards and cross-validation passed
exit 1  + "VIOLATION property=<id> replay=<path>"  a counterexample reproduced on the unpatched library that
        known_findings.json does not list as known
exit 2  inconclusive (solver unknown, bound exceeded, encoding mismatch, counterexample that did not reproduce)
"""
import argparse
import concurrent.futures as cf
import importlib
import json
import multiprocessing as mp
import os
import sys
import time
import traceback

VERIF = os.path.dirname(os.path.dirname(os.path.abspath(__file__)))
sys.path.insert(0, VERIF)

from spv import obs  # noqa: E402
from spv.concrete import Client  # noqa: E402
from spv.engine import explore, merge_stats  # noqa: E402

# The library is imported from /repo's current working tree.  VERIF_REPO (a scratch worktree of /repo) exists only so that seeded
# changes can be evaluated without touching /repo while other runs are using it; the registered commands never set it.
REPO = os.environ.get("VERIF_REPO", "/repo")
if REPO != "/repo":
    sys.path.insert(0, REPO)
    os.environ["PYTHONPATH"] = REPO + (":" + os.environ["PYTHONPATH"] if os.environ.get("PYTHONPATH") else "")
REPO_PKG = REPO + "/space_packet_parser"
_worker_client = None
_covered = set()


def _monitor_start():
    """Record which library code objects are executed (functions_encoded in the evidence)."""
    mon = sys.monitoring
    tool = mon.PROFILER_ID
    try:
        mon.use_tool_id(tool, "spv")
    except ValueError:
        return

    def on_start(code, offset):
        fn = code.co_filename
        if fn.startswith(REPO_PKG) and code.co_flags & 0x1:     # CO_OPTIMIZED: functions only, no module/class bodies
            _covered.add(fn[len(REPO_PKG) + 1:-3].replace("/", ".") + ":" + code.co_qualname)
        return mon.DISABLE

    mon.register_callback(tool, mon.events.PY_START, on_start)
    mon.set_events(tool, mon.events.PY_START)


def run_job(modname, job, root_prefix, seed_only, deadline=None):
    """Executed in a pool process."""
    global _worker_client
    t0 = time.time()
    try:
        import logging
        logging.disable(logging.CRITICAL)      # the library logs f-strings of proxies; formatting is stubbed, output suppressed
        _monitor_start()
        mod = importlib.import_module(modname)
        h = mod.make(job)
        if job.get("tier") == "thorough":
            h.second_stride, h.second_cap = job.get("second_stride", 25), job.get("second_cap", 12)
        st = explore(h, root_prefix, max_paths=job.get("max_paths", 200000), seed_only=seed_only, deadline=deadline)
        # concolic cross-validation against the unpatched library
        st["validated"] = 0
        st["val_skipped"] = 0
        st["val_mismatch"] = []
        reqs = st.pop("validate", [])
        if reqs:
            if _worker_client is None:
                _worker_client = Client()
            for req in reqs:
                if req.get("skip_validation"):
                    st["val_skipped"] += 1
                    continue
                req["module"] = modname
                got = _worker_client.call(req)
                d = obs.same(req["expect"], {k: got.get(k) for k in req["expect"]} if "cls" in got and got["cls"] not in
                             ("WORKER-ERROR", "WORKER-DIED", "TIMEOUT") else got)
                if d is None:
                    st["validated"] += 1
                elif got.get("cls") in ("WORKER-ERROR", "WORKER-DIED"):
                    st["val_mismatch"].append({"job": job["name"], "diff": "worker: " + str(got)[:600], "request": req})
                else:
                    st["val_mismatch"].append({"job": job["name"], "diff": d, "request": req, "got": got})
        for f in st["failed"]:
            f["job"] = job["name"]
            if isinstance(f.get("request"), dict):
                f["request"]["module"] = modname
        st["engine_errors"] = [f"{job['name']}: {e}" for e in st["engine_errors"]]
        st["covered"] = sorted(_covered)
        st["job"] = job["name"]
        st["wall"] = time.time() - t0
        return st
    except BaseException as e:   # noqa: BLE001
        return {"job": job.get("name"), "engine_errors": [f"{job.get('name')}: job crashed: {e!r} {traceback.format_exc()[-800:]}"],
                "paths": 0, "leftover": [], "failed": [], "wall": time.time() - t0}


def load_known():
    p = os.path.join(VERIF, "known_findings.json")
    if not os.path.exists(p):
        return []
    return json.load(open(p))


def main(argv=None):
    ap = argparse.ArgumentParser()
    ap.add_argument("prop")
    ap.add_argument("--tier", default=os.environ.get("VERIF_TIER", "quick"), choices=["quick", "thorough"])
    ap.add_argument("--replay")
    ap.add_argument("--jobs", type=int, default=int(os.environ.get("VERIF_JOBS", "0")) or (os.cpu_count() or 4))
    ap.add_argument("--only", help="substring filter on job names (debugging)")
    ap.add_argument("-v", action="store_true")
    a = ap.parse_args(argv)
    pid = a.prop.upper()
    seed = int(os.environ.get("VERIF_SEED", "0") or 0)
    modname = f"checks.{pid.lower()}"
    mod = importlib.import_module(modname)
    if a.replay:
        return replay_file(mod, pid, a.replay)

    t0 = time.time()
    budget = float(os.environ.get("VERIF_BUDGET_S", "0") or 0) or (900 if a.tier == "quick" else 5400)
    deadline = t0 + budget
    jobs = [dict(j, tier=a.tier) for j in mod.jobs(a.tier)]
    if hasattr(mod, "vacuity_jobs"):
        jobs = jobs + [dict(j, twin=True) for j in mod.vacuity_jobs()]
    if a.only:
        jobs = [j for j in jobs if a.only in j["name"]]
    if seed:
        import random
        random.Random(seed).shuffle(jobs)      # the seed only permutes work distribution
    total = dict(paths=0)
    per_job = {}
    ctx = mp.get_context("fork")
    with cf.ProcessPoolExecutor(max_workers=a.jobs, mp_context=ctx) as ex:
        futs = {}
        for j in jobs:
            futs[ex.submit(run_job, modname, j, [], j.get("split"), deadline)] = j
        while futs:
            done, _ = cf.wait(list(futs), timeout=max(1.0, deadline + 60 - time.time()), return_when=cf.FIRST_COMPLETED)
            if not done:
                # a path that does not come back (library loop on symbolic data, solver stuck): give up, never success
                total.setdefault("engine_errors", []).append(
                    f"time budget of {budget:.0f}s exceeded with {len(futs)} job(s) still running: " + ", ".join(sorted({j['name'] for j in futs.values()}))[:300])
                for pr in list(getattr(ex, "_processes", {}).values()):
                    pr.kill()
                futs.clear()
                break
            for f in done:
                j = futs.pop(f)
                try:
                    st = f.result()
                except Exception as e:   # pool breakage
                    st = {"job": j["name"], "engine_errors": [f"{j['name']}: pool failure {e!r}"], "paths": 0, "leftover": [], "failed": []}
                for pre in st.pop("leftover", []) or []:
                    # dynamic splitting: every sub-job explores at most `chunk` paths and hands back the rest
                    futs[ex.submit(run_job, modname, j, pre, j.get("chunk", 60), deadline)] = j
                pj = per_job.setdefault(j["name"], {})
                if j.get("twin"):
                    # reachability twin: its final `False` obligation must come back sat; nothing of it is counted
                    pj["twin_failed"] = pj.get("twin_failed", 0) + len(st.get("failed", []))
                    pj["paths"] = pj.get("paths", 0) + st.get("paths", 0)
                    total["twin_paths"] = total.get("twin_paths", 0) + st.get("paths", 0)
                    total.setdefault("engine_errors", []).extend(e for e in st.get("engine_errors", []) if "path cap" not in e and "stopped after" not in e)
                    continue
                merge_stats(pj, st)
                pj["wall"] = pj.get("wall", 0) + st.get("wall", 0)
                for k in ("validated", "val_skipped"):
                    total[k] = total.get(k, 0) + st.get(k, 0)
                total.setdefault("val_mismatch", []).extend(st.get("val_mismatch", []))
                total.setdefault("covered", set()).update(st.get("covered", []))
                merge_stats(total, st)
                if a.v:
                    print(f"  job {st.get('job')}: paths={st.get('paths')} obl={st.get('obligations')} failed={len(st.get('failed', []))} "
                          f"err={len(st.get('engine_errors', []))} {st.get('wall', 0):.1f}s", file=sys.stderr)

    # ------------------------------------------------------------------ vacuity guards
    inconclusive = list(total.get("engine_errors", []))
    if total.get("unknown"):
        inconclusive.append(f"{total['unknown']} obligations came back unknown")
    for j in jobs:
        pj = per_job.get(j["name"], {})
        if j.get("twin"):
            if not pj.get("twin_failed"):
                inconclusive.append(f"vacuity: reachability twin {j['name']} did not come back violated")
            continue
        for cls in j.get("must_reach", []):
            if not pj.get("classes", {}).get(cls):
                inconclusive.append(f"vacuity: job {j['name']} never reached outcome class {cls!r} (classes={pj.get('classes')})")
        if not pj.get("paths"):
            inconclusive.append(f"vacuity: job {j['name']} explored no path")
    for mm in total.get("val_mismatch", []):
        inconclusive.append(f"cross-validation mismatch in {mm['job']}: {mm['diff']}")

    # ------------------------------------------------------------------ replay counterexamples on the unpatched library
    known = [k for k in load_known() if k["property"] == pid]
    violations, known_hits, not_reproduced = [], {}, []
    client = Client()
    os.makedirs(os.path.join(VERIF, "replay"), exist_ok=True)
    seen_keys = set()
    per_label = {}
    for f in total.get("failed", []):
        req = f.get("request") or {}
        lab = (req.get("kind"), f.get("label"))
        per_label[lab] = per_label.get(lab, 0) + 1
        if per_label[lab] > 25:          # replay at most 25 counterexamples per obligation label
            continue
        if "error" in req or "kind" not in req:
            inconclusive.append(f"counterexample for {f['label']} in {f.get('job')} could not be concretised: {req.get('error')}")
            continue
        got = client.call(req)
        verdict, detail = judge(mod, req, got)
        key = mod.finding_key(f, req, got) if hasattr(mod, "finding_key") else f"{pid}:{f['label']}"
        if verdict == "reproduced":
            kn = next((k for k in known if k["key"] == key and k.get("status") == "known"), None)
            if kn is not None:
                known_hits.setdefault(key, (kn, detail))
                continue
            if key in seen_keys:
                continue
            seen_keys.add(key)
            path = os.path.join(VERIF, "replay", f"{pid}_{len(violations)}.json")
            json.dump({"property": pid, "key": key, "label": f["label"], "job": f.get("job"), "request": req, "real_result": got,
                       "detail": detail, "reproduce": f"cd /verif && ./check {pid} --replay {path}"}, open(path, "w"), indent=1)
            violations.append((key, f, path, detail))
        else:
            not_reproduced.append((f, detail))
    client.close()
    for f, detail in not_reproduced[:5]:
        inconclusive.append(f"counterexample for {f['label']} in {f.get('job')} did not reproduce on the real code ({detail}) - encoding or oracle is wrong")

    wall = time.time() - t0
    meta = mod.META
    samples = [_trim(x) for x in total.get("samples", [])[:4]] or [{"note": "no path explored"}]
    coverage = {
        "states": total.get("paths", 0),
        "transitions": total.get("decisions", 0),
        "traces_validated_against_impl": total.get("validated", 0),
        "samples": samples,
        "obligations": total.get("obligations", 0),
        "discharged": total.get("discharged", 0),
        "queries": total.get("queries", 0),
        "solver_time_s": round(total.get("solver_time", 0.0), 2),
        "solver": "z3 " + _z3v(),
        "functions_encoded": sorted(total.get("covered", [])),
        "jobs": len(jobs),
        "reachability_twins_violated": sum(1 for j in jobs if j.get("twin") and per_job.get(j["name"], {}).get("twin_failed")),
        "outcome_classes": total.get("classes", {}),
        "cut_paths": total.get("cuts", {}),
        "width_guards_proved": total.get("guards", 0),
        "lazy_axioms": total.get("lazy_axioms", 0),
        "second_solver": total.get("second", {"checked": 0}),
        "validation_skipped": total.get("val_skipped", 0),
        "bounds": meta.get("bounds", {}).get(a.tier, meta.get("bounds")),
        "stubs": meta.get("stubs", []),
        "outside_claim": meta.get("outside_claim", []),
        "known_findings_seen": sorted(known_hits),
        "inconclusive": inconclusive[:20],
        "per_job": {n: {"paths": s.get("paths", 0), "obligations": s.get("obligations", 0), "classes": s.get("classes", {}),
                        "wall_s": round(s.get("wall", 0), 2)} for n, s in sorted(per_job.items())} if len(per_job) <= 80 else
                   {"jobs": len(per_job), "paths_min": min(s.get("paths", 0) for s in per_job.values()),
                    "paths_max": max(s.get("paths", 0) for s in per_job.values())},
        "explanation": meta.get("explanation", ""),
    }
    if hasattr(mod, "extra_evidence"):
        coverage.update(mod.extra_evidence(a.tier, total))
    evidence = {"property_id": pid, "tier": a.tier, "seed": seed, "level": meta.get("level", "model_checking"), "coverage": coverage,
                "assumptions": meta.get("assumptions", []), "wall_s": round(wall, 2), "violations": len(violations)}
    os.makedirs(os.path.join(VERIF, "evidence"), exist_ok=True)
    json.dump(evidence, open(os.path.join(VERIF, "evidence", f"{pid}.json"), "w"), indent=1)

    print(f"{pid} [{a.tier}] jobs={len(jobs)} paths={total.get('paths', 0)} decisions={total.get('decisions', 0)} "
          f"obligations={total.get('obligations', 0)} discharged={total.get('discharged', 0)} queries={total.get('queries', 0)} "
          f"solver={total.get('solver_time', 0):.1f}s validated={total.get('validated', 0)} cuts={sum(total.get('cuts', {}).values())} "
          f"wall={wall:.1f}s")
    for key, (kn, detail) in sorted(known_hits.items()):
        print(f"KNOWN-FINDING: property={pid} {kn['what']} [{key}]")
    for key, f, path, detail in violations:
        print(f"  counterexample {key}: {detail}")
        print(f"VIOLATION property={pid} replay={path}")
    if violations:
        for m in sorted(set(x[:300] for x in inconclusive))[:4]:
            print("note (also inconclusive):", m)
        return 1
    if inconclusive:
        shown = []
        for m in inconclusive:
            m = m[:700]
            if m not in shown:
                shown.append(m)
        for m in shown[:12]:
            print("INCONCLUSIVE:", m)
        if len(shown) > 12:
            print(f"INCONCLUSIVE: ... and {len(shown) - 12} more distinct reasons")
        return 2
    print(f"{pid}: holds on everything explored" + (" apart from the recorded known findings" if known_hits else "") + f" (bounded; see evidence/{pid}.json)")
    return 0


def judge(mod, req, got):
    """Does the real code's result differ from what the property's oracle prescribes for this input?"""
    if hasattr(mod, "judge"):
        return mod.judge(req, got)
    if got.get("cls") in ("WORKER-ERROR", "WORKER-DIED"):
        return "error", str(got)[:300]
    spec = req.get("spec")
    if spec is None:
        return "error", "no spec in request"
    d = obs.same(spec, {k: got.get(k) for k in spec} if isinstance(spec, dict) else got)
    if d is None:
        return "not-reproduced", "real result equals the oracle"
    return "reproduced", d


def replay_file(mod, pid, path):
    rec = json.load(open(path))
    req = rec["request"]
    client = Client()
    got = client.call(req)
    client.close()
    verdict, detail = judge(mod, req, got)
    print(json.dumps({"input": req.get("input"), "oracle": req.get("spec"), "real": got}, indent=1)[:4000])
    if verdict == "reproduced":
        print(f"reproduced: {detail}")
        print(f"VIOLATION property={pid} replay={path}")
        return 1
    print(f"not reproduced on the current tree: {detail}")
    return 0


def _trim(x, limit=2500):
    t = json.dumps(x)
    return x if len(t) <= limit else {"truncated_json": t[:limit]}


def _z3v():
    import z3
    return z3.get_version_string()


if __name__ == "__main__":
    sys.exit(main())
