"""C07 - string and binary fields, including computed lengths, decode as documented.

Harness: checks/e2e.py on (a) template T2 and (b) a generated family of small documents, one per combination of
character encoding x delimiting (whole / termination character / leading size 8 / 16) x length source (fixed whole bytes,
fixed non-whole-bytes, discrete lookup, raw reference with linear adjustment, calibrated reference) x bit offset; and the
binary analogue.  Real code: StringDataEncoding / BinaryDataEncoding.parse_value, _calculate_size, _get_raw_buffer, the
linear-adjuster closure, DiscreteLookup.evaluate, read_as_int / read_as_bytes, bytes.index for the terminator search.
"""
import zlib

from checks import e2e, templates
from checks.e2e import concrete, judge, make  # noqa: F401

META = {
    "level": "model_checking",
    "claim": "For each generated document of the family (quick: 4 codecs x 4 delimitings x 5 length sources x offsets {0,3,5} + binary 5 sources x "
             "offsets {0,3,5}; thorough: all 10 codecs, UTF-16/32 in both declared byte orders, all 8 offsets) and the mixed template T2, with every "
             "packet bit symbolic (so the length-carrying field takes every value), z3 proves that a binary parameter is exactly its field's bits "
             "left-padded to whole bytes, that a string's raw value is its whole buffer right-padded, that the text is decode(codec, exact byte "
             "range) for the whole buffer / the part before the first terminator / the part selected by the leading size tag, with the codec the "
             "document declares (byte order honoured for UTF-16/32), and that the cursor advances by exactly the computed length whichever way the "
             "text is delimited.  Where the document asks for something the property does not specify (terminator absent, size tag not a multiple of 8 or "
             "too large, no lookup match, non-integral size) any outcome is accepted; a negative or over-long computed size must not be delivered clean.",
    "trusted": "z3; BV proxies; bytes.decode as an uninterpreted function of (codec, bytes) - codec correctness and BOM handling are trusted; "
               "Spec-XTCE; every path cross-validated on a witness whose text bytes are printable ASCII where the path allows",
    "bounds": {"quick": {"codecs": ["UTF-8", "US-ASCII", "UTF-16 (declared BE)", "UTF-16LE"], "offsets": [0, 3, 5], "packet": "16 / 14 bytes",
                         "length field": "4 bits (every value)"},
               "thorough": {"codecs": "all 10 (+ UTF-16/UTF-32 declared LE)", "offsets": "0..7", "packet": "16 / 14 bytes", "length field": "4 bits"}},
    "stubs": ["bytes.decode uninterpreted", "bytes.index = first match, forks per position"],
    "outside_claim": ["codec correctness; BOM handling", "a zero-valued FIXED size (the constructor treats 0 as 'not specified': such a document is rejected at load); zero-valued looked-up and referenced sizes are in scope",
                      "buffers longer than the packet bound"],
    "assumptions": [],
}

finding_key = e2e.finding_key("C07")


def J(t, clean, flags=(1,)):
    return {"name": t, "h": "e2e", "params": {"template": t, "lens": [clean], "flagsets": list(flags)}, "split": 4, "chunk": 40, "max_paths": 100000}


def jobs(tier):
    q = tier == "quick"
    out = []
    codecs = [("UTF-8", None), ("US-ASCII", None), ("UTF-16", "mostSignificantByteFirst"), ("UTF-16LE", None)] if q else \
        [(c, None) for c in templates.CODECS] + [("UTF-16", "leastSignificantByteFirst"), ("UTF-32", "leastSignificantByteFirst")]
    offs = [0, 3, 5] if q else list(range(8))
    for codec, order in codecs:
        for delim in templates.DELIMS:
            for src in templates.SOURCES:
                for off in offs:
                    if q and (zlib.crc32(f"{codec}{delim}{src}{off}".encode()) % 3) and not (codec == "UTF-8" and off == 3):
                        continue          # quick tier: a deterministic third of the family plus the full UTF-8 / offset-3 slice
                    name = f"S|{codec}|{delim}|{src}|{off}" + (f"|{order}" if order and order != "mostSignificantByteFirst" else "")
                    out.append(J(name, 16))
    # the string as the LAST field of a packet that ends in the string's last byte (lengths that are not whole bytes included)
    for delim in (("whole", "term") if q else templates.DELIMS):
        for off in ((1, 3, 4) if q else range(8)):
            out.append(J(f"S|UTF-8|{delim}|ref-raw-bits|{off}|mostSignificantByteFirst|LAST", 8))            # 48 + off + 4 + L bits, L = 0..15: ends in byte 7 or 8
            out.append(J(f"S|UTF-8|{delim}|fixed-odd|{off}|mostSignificantByteFirst|LAST", (48 + off + 4 + 21 + 7) // 8))
    for src in templates.SOURCES:
        for off in offs:
            out.append(J(f"B|{src}|{off}", 14))
    out.append({"name": "T8-8-8", "h": "e2e", "params": {"template": "T8", "lens": [8, 8], "flagsets": [1]}, "split": 16, "chunk": 25, "max_paths": 100000})
    out.append({"name": "B|lookup|0-14-14", "h": "e2e", "params": {"template": "B|lookup|0", "lens": [14, 14], "flagsets": [1]}, "split": 16, "chunk": 25, "max_paths": 100000})
    out.append({"name": "T2-18", "h": "e2e", "params": {"template": "T2", "lens": [18], "flagsets": [1]}, "split": 16, "chunk": 25, "max_paths": 100000})
    return out


def vacuity_jobs():
    return [{"name": "twin", "h": "twin", "params": {"template": "S|UTF-8|term|fixed|3", "lens": [16], "flagsets": [1]}, "max_paths": 20}]
