"""Observables: evaluate symbolic results under a model to JSON-able values, and compare them with what the
unpatched library produced.  Encodings:
   int -> int, bool -> bool, str -> str, None -> None
   bytes -> {"hex": "..."}
   real (exact) -> {"q": "n/d"}            compared with a relative tolerance of 1e-9 against a python float
   python float -> {"f": float.hex()}
   uninterpreted decode -> {"decode": codec, "hex": "..."}   compared by applying the real codec
   uninterpreted unpack -> {"unpack": fmt, "hex": "..."}     compared by applying the real struct.unpack
"""
import builtins
import math
import struct
from fractions import Fraction

import z3

TOL = 1e-9


def ev(model, x):
    from . import bv, lia
    if x is None or isinstance(x, (builtins.bool, builtins.str)):
        return x
    if isinstance(x, lia.LInt):
        return model.eval(x.t, model_completion=True).as_long()
    if isinstance(x, builtins.int):
        return builtins.int(x)
    if isinstance(x, builtins.float):
        return {"f": x.hex()}
    if isinstance(x, Fraction):
        return {"q": f"{x.numerator}/{x.denominator}"}
    if isinstance(x, builtins.bytes):
        return {"hex": x.hex()}
    if isinstance(x, bv.SymInt):
        return bv.model_int(model, x.t)
    if isinstance(x, bv.IntegralReal):
        v = bv.model_int(model, x.b)
        return {"q": f"{v}/1"}
    if isinstance(x, bv.SymReal):
        return ev(model, x.t)
    if isinstance(x, bv.SymBytes):
        return {"hex": bv.model_bytes(model, x.items).hex()}
    if isinstance(x, bv.SymStr):
        if x.is_concrete():
            return x.v
        _, codec, items = x.v
        return {"decode": codec, "hex": bv.model_bytes(model, items).hex()}
    if isinstance(x, (list, tuple)):
        return [ev(model, y) for y in x]
    if isinstance(x, dict):
        return {k: ev(model, v) for k, v in x.items()}
    if z3.is_expr(x):
        if z3.is_bool(x):
            return z3.is_true(model.eval(x, model_completion=True))
        if z3.is_bv(x):
            v = model.eval(x, model_completion=True)
            return v.as_long()          # raw bit pattern for plain BV terms (callers use SymInt for signed values)
        if z3.is_int(x):
            return model.eval(x, model_completion=True).as_long()
        if z3.is_real(x):
            # an application of an uninterpreted unpack function is reported structurally
            if z3.is_app(x) and x.decl().name().startswith("unpack_") and x.num_args() == 1:
                fmt = x.decl().name()[len("unpack_"):].replace("LE_", "<").replace("BE_", ">").replace("NET_", "!")
                arg = x.arg(0)
                n = arg.size() // 8
                val = model.eval(arg, model_completion=True).as_long()
                return {"unpack": fmt, "hex": val.to_bytes(n, "big").hex()}
            v = model.eval(x, model_completion=True)
            if z3.is_algebraic_value(v):
                v = v.approx(30)
            return {"q": f"{v.numerator_as_long()}/{v.denominator_as_long()}"}
    raise TypeError(f"cannot evaluate observable of type {type(x)}")


def enc_concrete(x):
    """JSON encoding of a value produced by the unpatched library."""
    if x is None or isinstance(x, builtins.bool):
        return x
    if isinstance(x, builtins.int):
        return builtins.int(x)
    if isinstance(x, builtins.float):
        return {"f": builtins.float(x).hex()}
    if isinstance(x, builtins.str):
        return builtins.str(x)
    if isinstance(x, (builtins.bytes, bytearray)):
        return {"hex": builtins.bytes(x).hex()}
    if isinstance(x, (list, tuple)):
        return [enc_concrete(y) for y in x]
    if isinstance(x, dict):
        return {builtins.str(k): enc_concrete(v) for k, v in x.items()}
    return repr(x)


def _num(x):
    """python number of an encoded numeric, or None."""
    if isinstance(x, builtins.bool):
        return builtins.int(x)
    if isinstance(x, builtins.int):
        return x
    if isinstance(x, dict):
        if "f" in x:
            return builtins.float.fromhex(x["f"])
        if "q" in x:
            return Fraction(x["q"])
        if "unpack" in x:
            return struct.unpack(x["unpack"], builtins.bytes.fromhex(x["hex"]))[0]
    return None


def same(expected, got, path=""):
    """-> None if equal, else a short description of the first difference."""
    if isinstance(expected, dict) and "decode" in expected:
        try:
            exp = builtins.bytes.fromhex(expected["hex"]).decode(expected["decode"])
        except (UnicodeDecodeError, LookupError) as e:
            exp = f"!{type(e).__name__}"
        return None if exp == got else f"{path}: expected text {exp!r}, got {got!r}"
    if isinstance(expected, dict) and not any(k in expected for k in ("f", "q", "hex", "unpack")):
        if not isinstance(got, dict):
            return f"{path}: expected mapping, got {got!r}"
        # mapping order is not significant here; ordered things (packet items) are encoded as lists of pairs
        if set(expected.keys()) != set(got.keys()):
            return f"{path}: keys {sorted(expected.keys())} vs {sorted(got.keys())}"
        for k in expected:
            d = same(expected[k], got[k], f"{path}.{k}")
            if d:
                return d
        return None
    if isinstance(expected, list):
        if not isinstance(got, list) or len(expected) != len(got):
            return f"{path}: expected list of {len(expected)}, got {got!r:.200}"
        for i, (a, b) in enumerate(zip(expected, got)):
            d = same(a, b, f"{path}[{i}]")
            if d:
                return d
        return None
    if isinstance(expected, dict) and "hex" in expected and "unpack" not in expected:
        return None if expected == got else f"{path}: expected bytes {expected['hex']}, got {got!r:.200}"
    ne, ng = _num(expected), _num(got)
    if ne is not None and ng is not None:
        # value class matters: an int must stay an int, a float a float
        e_is_int = isinstance(expected, builtins.int)
        g_is_int = isinstance(got, builtins.int)
        if e_is_int != g_is_int:
            return f"{path}: value class differs: expected {expected!r}, got {got!r}"
        if e_is_int:
            return None if ne == ng else f"{path}: expected {ne}, got {ng}"
        if isinstance(ng, builtins.float) and (math.isnan(ng) or math.isinf(ng)):
            if isinstance(ne, builtins.float) and (ne == ng or (math.isnan(ne) and math.isnan(ng))):
                return None
            return f"{path}: non-finite value {ng} vs {ne}"
        if isinstance(ne, builtins.float) and (math.isnan(ne) or math.isinf(ne)):
            return f"{path}: non-finite value {ne} vs {ng}"
        fe, fg = Fraction(ne), Fraction(ng)
        if abs(fe - fg) <= Fraction(TOL) * (1 + abs(fe)):
            return None
        return f"{path}: expected {builtins.float(fe)!r}, got {builtins.float(fg)!r}"
    return None if expected == got else f"{path}: expected {expected!r:.200}, got {got!r:.200}"


def dec(x):
    """decode an input value written by ev() back to python (floats, fractions, bytes)"""
    if isinstance(x, dict):
        if set(x) == {"f"}:
            return builtins.float.fromhex(x["f"])
        if set(x) == {"q"}:
            return Fraction(x["q"])
        if set(x) == {"hex"}:
            return builtins.bytes.fromhex(x["hex"])
        return {k: dec(v) for k, v in x.items()}
    if isinstance(x, list):
        return [dec(v) for v in x]
    return x
