"""Inductive step for the segment state machine (C12 deepening): histories of ANY length.

The body of the `for raw_packet_data in packets.ccsds_generator(...)` loop of the real XtcePacketDefinition.packet_generator is lifted out
of the function's AST (read from /repo's current source on every run): every `yield X` becomes `_OUT.append(X)`, every top-level `continue`
becomes `return`, nothing else changes; the statements are compiled in the definitions module's namespace (same shims).  The harness runs
ONE iteration from an ARBITRARY state of the per-APID segment table (up to 3 stored segments for each of 2 APIDs, every stored packet with
symbolic sequence count and data) with an ARBITRARY incoming packet (symbolic flags, APID choice, sequence count, data) and proves that
the outputs, the warnings and the NEW TABLE are those of the reference transition function.  Together with the trivial base case (the table
starts empty) this covers every finite history whose open groups never hold more than 3 stored segments.
"""
import ast
import inspect
import io
import textwrap

import z3

from spv import bv
from spv.engine import EngineLimit
from spv.harness import Harness, result

STATE = ["self", "parse_bad_pkts", "root_container_name", "ccsds_headers_only", "combine_segmented_packets", "secondary_header_bytes",
         "yield_unrecognized_packet_errors", "_segmented_packets", "raw_packet_data"]
APIDS = [5, 1030]
W_NOSTART = "Continuation packet found without declaring the star"
W_GAP = "Continuation packets for apid"


class _Lift(ast.NodeTransformer):
    def __init__(self):
        self.depth = 0
        self.yields = 0

    def visit_While(self, node):
        self.depth += 1
        self.generic_visit(node)
        self.depth -= 1
        return node

    visit_For = visit_While

    def visit_FunctionDef(self, node):
        return node

    def visit_Continue(self, node):
        if self.depth == 0:
            return ast.parse("return _OUT, _segmented_packets").body[0]
        return node

    def visit_Break(self, node):
        if self.depth == 0:
            raise EngineLimit("break at the top level of the packet loop: loop body cannot be lifted as one step")
        return node

    def visit_Expr(self, node):
        if isinstance(node.value, ast.Yield):
            if self.depth != 0:
                raise EngineLimit("yield inside a nested loop")
            self.yields += 1
            call = ast.parse("_OUT.append(0)").body[0]
            call.value.args = [node.value.value]
            return call
        return node


def lift(definitions):
    src = textwrap.dedent(inspect.getsource(definitions.XtcePacketDefinition.packet_generator))
    fn = ast.parse(src).body[0]
    loops = [n for n in fn.body if isinstance(n, ast.For) and isinstance(n.target, ast.Name) and n.target.id == "raw_packet_data"]
    if len(loops) != 1:
        raise EngineLimit("packet_generator no longer has exactly one `for raw_packet_data in ...` loop")
    lifter = _Lift()
    body = [lifter.visit(s) for s in loops[0].body]
    if lifter.yields < 2:
        raise EngineLimit("expected the packet loop to yield in several places")
    load = [ast.parse(f"{n} = S[{n!r}]").body[0] for n in STATE] + [ast.parse("_OUT = []").body[0]]
    step = ast.FunctionDef(name="_step", args=ast.arguments(posonlyargs=[], args=[ast.arg("S")], kwonlyargs=[], kw_defaults=[], defaults=[]),
                           body=load + body + [ast.parse("return _OUT, _segmented_packets").body[0]], decorator_list=[], type_params=[])
    mod = ast.Module(body=[step], type_ignores=[])
    ast.fix_missing_locations(mod)
    g = dict(definitions.__dict__)
    exec(compile(mod, "<lifted from XtcePacketDefinition.packet_generator>", "exec"), g)    # noqa: S102 - the library's own statements
    return g["_step"]


XTCE = None


def mkpacket(lib, name, apid, flags, dlen):
    """re-hosted RawPacketData with symbolic sequence count / data; apid concrete or a term; flags concrete or a term"""
    b0, b2, b3 = z3.BitVec(f"{name}_b0", 8), z3.BitVec(f"{name}_b2", 8), z3.BitVec(f"{name}_b3", 8)
    if isinstance(apid, int):
        hi = z3.Concat(z3.Extract(7, 3, b0), z3.BitVecVal(apid >> 8, 3))
        lo = apid & 0xFF
    else:
        hi, lo = apid
    if isinstance(flags, int):
        f2 = z3.Concat(z3.BitVecVal(flags, 2), z3.Extract(5, 0, b2))
    else:
        f2 = b2
    data = [z3.BitVec(f"{name}_d{j}", 8) for j in range(dlen)]
    items = [hi, lo, f2, b3, (dlen - 1) >> 8, (dlen - 1) & 0xFF] + data
    raw = lib.RawPacketData(bv.SymBytes(items))
    seq = z3.Concat(z3.Extract(5, 0, bv.byte_term(f2)), b3)
    return raw, seq


class Step(Harness):
    kind = "segments"       # counterexamples are replayed as a HISTORY that builds the state (stored groups) followed by the incoming packet
    validate = False

    def run(self, ctx):
        from checks import c12
        lib = self.lib
        # ---- arbitrary state: for each APID a stored group of 0..3 segments
        shape = ctx.choose("shape", 16)
        g0, g1 = shape % 4, shape // 4
        s = ctx.choose("s", 8)
        table, seqs = {}, {}
        for ai, n in ((0, g0), (1, g1)):
            if n:
                lst, sq = [], []
                for j in range(n):
                    raw, seq = mkpacket(lib, f"st{ai}_{j}", APIDS[ai], 1 if j == 0 else 0, 3 + j + 2 * ai)
                    lst.append(raw)
                    sq.append(seq)
                table[APIDS[ai]] = lst
                seqs[APIDS[ai]] = sq
        before = {k: list(v) for k, v in table.items()}
        # ---- arbitrary incoming packet
        a_hi, a_lo = z3.BitVec("in_b0", 8), z3.BitVec("in_b1", 8)
        apid_t = z3.Concat(z3.Extract(2, 0, a_hi), a_lo)
        ctx.assume(z3.Or([apid_t == a for a in APIDS]))
        pkt, pseq = mkpacket(lib, "in", (a_hi, a_lo), None, 4)
        flags_t = z3.Extract(7, 6, bv.byte_term(pkt.items[2]))
        S = {"self": self.definition, "parse_bad_pkts": True, "root_container_name": "CCSDSPacket", "ccsds_headers_only": False,
             "combine_segmented_packets": True, "secondary_header_bytes": s, "yield_unrecognized_packet_errors": False,
             "_segmented_packets": table, "raw_packet_data": pkt}
        try:
            out, table2 = self.step(S)
            exc = None
        except Exception as e:     # noqa: BLE001 - library outcome
            out, table2, exc = [], table, type(e).__name__
        warns = [c12.kind_of(m) for (cat, m) in ctx.warnings if "Deprecat" not in cat]
        # ---- reference transition function (forks only where the symbolic fields leave a choice)
        want_out, want_warn = [], []
        want_table = {k: list(v) for k, v in before.items()}
        if ctx.fork(flags_t == 3):
            want_out.append(list(pkt.items))
            want_warn.append("len")
        else:
            a = ctx.pick(z3.BV2Int(apid_t))
            if ctx.fork(flags_t == 1):
                want_table[a] = [pkt]
            elif a not in want_table:
                want_warn.append("nostart")
            elif ctx.fork(flags_t == 0):
                want_table[a] = want_table[a] + [pkt]
            else:
                group = want_table.pop(a) + [pkt]
                gs = seqs[a] + [pseq]
                ok = True
                for x, y in zip(gs, gs[1:]):
                    d = z3.ZeroExt(2, y) - z3.ZeroExt(2, x)
                    if not ctx.fork(z3.Or(d == 1, d == z3.BitVecVal(1 - 16384, 16))):
                        ok = False
                        break
                if ok:
                    items = list(group[0].items)
                    for p in group[1:]:
                        items += p.items[6 + s:]
                    want_out.append(items)
                    want_warn.append("len")
                else:
                    want_warn.append("gap")
        obl = [("no exception", exc is None), ("warnings", c12.same_warnings(warns, want_warn)), ("number of outputs", len(out) == len(want_out))]
        for i, (g, w) in enumerate(zip(out, want_out)):
            gi = g.raw_data.items if hasattr(g, "raw_data") else None
            if gi is None or len(gi) != len(w):
                obl.append((f"output {i} length", False))
            else:
                obl.append((f"output {i} bytes", z3.And([bv.byte_term(x) == bv.byte_term(y) for x, y in zip(gi, w)] + [z3.BoolVal(True)])))
        same_keys = isinstance(table2, dict) and sorted(int(k) if isinstance(k, int) else ctx.pick(k.t) for k in table2 if table2[k]) == sorted(k for k in want_table if want_table[k])
        obl.append(("new table: same open groups", same_keys))
        if same_keys:
            for k, lst in want_table.items():
                got = next((v for kk, v in table2.items() if (kk if isinstance(kk, int) else ctx.pick(kk.t)) == k), [])
                obl.append((f"new table: group of APID {k} holds exactly the expected segments in order", len(got) == len(lst) and all(x is y for x, y in zip(got, lst))))
        hist = []
        for k in sorted(before):
            for raw in before[k]:
                hist += list(raw.items)
        hist += list(pkt.items)
        return result(f"{len(want_out)}out/{len([w for w in want_warn if w != 'len'])}warn", obl, observe={}, inputs={"stream": bv.SymBytes(hist), "s": s, "K": g0 + g1 + 1})


def make(job):
    from checks import c12
    lib = bv.install(128)
    h = Step(job)
    h.lib = lib
    h.definition = lib.definitions.XtcePacketDefinition.from_xtce(io.BytesIO(c12.XTCE))
    h.step = lift(lib.definitions)
    return h


def jobs(tier):
    return [{"name": "induct-step", "h": "induct12-step", "params": {}, "split": 32, "chunk": 30, "max_paths": 200000,
             "must_reach": ["1out/0warn", "0out/1warn", "0out/0warn"]}]
