"""Concrete worker: runs requests on the UNPATCHED library (no shims are ever installed in this process).

Protocol: one JSON object per line on stdin -> one JSON object per line on stdout.
A request names the check module; its `concrete(request)` function runs the real entry point on the concrete input
and returns the observables in the encoding of spv.obs.enc_concrete.
"""
import importlib
import json
import os
import signal
import subprocess
import sys
import traceback
import warnings


class Timeout(BaseException):
    pass


def _alarm(signum, frame):
    raise Timeout()


def serve():
    import logging
    logging.disable(logging.CRITICAL)
    signal.signal(signal.SIGALRM, _alarm)
    warnings.simplefilter("always")
    out = sys.stdout
    sys.stdout = sys.stderr          # library prints (AttrComparable mismatch messages) must not corrupt the protocol
    for line in sys.stdin:
        line = line.strip()
        if not line:
            continue
        req = json.loads(line)
        try:
            mod = importlib.import_module(req["module"])
            signal.alarm(int(req.get("timeout", 20)))
            try:
                res = mod.concrete(req)
            finally:
                signal.alarm(0)
        except Timeout:
            res = {"cls": "TIMEOUT"}
        except BaseException as e:    # noqa: BLE001 - reported to the caller, which decides
            res = {"cls": "WORKER-ERROR", "error": repr(e), "trace": traceback.format_exc()[-1500:]}
        out.write(json.dumps(res) + "\n")
        out.flush()


class Client:
    """Lazily started persistent worker process."""
    def __init__(self):
        self.p = None

    def start(self):
        env = dict(os.environ)
        root = os.path.dirname(os.path.dirname(os.path.abspath(__file__)))
        extra = [os.environ["VERIF_REPO"]] if os.environ.get("VERIF_REPO") else []
        env["PYTHONPATH"] = ":".join(extra + [root] + ([env["PYTHONPATH"]] if env.get("PYTHONPATH") else []))
        env.pop("SPP_VERIF_SHIMS", None)
        self.p = subprocess.Popen([sys.executable, "-m", "spv.concrete"], stdin=subprocess.PIPE, stdout=subprocess.PIPE,
                                  stderr=subprocess.DEVNULL, text=True, cwd=root, env=env)

    def call(self, req):
        if self.p is None or self.p.poll() is not None:
            self.start()
        try:
            self.p.stdin.write(json.dumps(req) + "\n")
            self.p.stdin.flush()
            line = self.p.stdout.readline()
        except BrokenPipeError:
            line = ""
        if not line:
            self.p = None
            return {"cls": "WORKER-DIED"}
        return json.loads(line)

    def close(self):
        if self.p is not None:
            try:
                self.p.stdin.close()
                self.p.wait(timeout=5)
            except Exception:
                self.p.kill()
            self.p = None


if __name__ == "__main__":
    serve()
