"""C06 - match criteria evaluate to the mathematical truth of their comparisons.

Real code executed: Comparison.evaluate, Condition.evaluate, BooleanExpression.evaluate (_and/_or), DiscreteLookup.evaluate,
and the first-match loops of BinaryDataEncoding._calculate_size / StringDataEncoding._calculate_size.
Symbolic: the values and raw values of the referenced parameters (re-hosted IntParameter / FloatParameter, so the
`type(value)(literal)` coercion and the `getattr(x, "__lt__")(y)` call style are the library's own).
Concrete / enumerated: operator spellings, selectors, literals from a listed set, all criteria-tree shapes up to the bound.
"""
import itertools

import z3

from checks import templates
from spv import bv
from spv.harness import Harness, result

OPS = {"==": "eq", "eq": "eq", "!=": "ne", "neq": "ne", "&lt;": "lt", "lt": "lt", "<": "lt", "&gt;": "gt", "gt": "gt", ">": "gt",
       "&lt;=": "le", "leq": "le", "<=": "le", "&gt;=": "ge", "geq": "ge", ">=": "ge"}
REL = {"eq": lambda a, b: a == b, "ne": lambda a, b: a != b, "lt": lambda a, b: a < b, "gt": lambda a, b: a > b,
       "le": lambda a, b: a <= b, "ge": lambda a, b: a >= b}
PYREL = {"eq": lambda a, b: a == b, "ne": lambda a, b: a != b, "lt": lambda a, b: a < b, "gt": lambda a, b: a > b,
         "le": lambda a, b: a <= b, "ge": lambda a, b: a >= b}
KINDS = ("int", "cal", "float")            # IntParameter(v) / FloatParameter(r, raw=v) / FloatParameter(r)
# a fourth kind, used by the single-comparison and history harnesses: "bool" = BoolParameter(bool(v), raw=v) (derived value 0 / 1, raw value v)
KINDS4 = KINDS + ("bool",)
# a fifth kind, single-comparison harness only: "str" = StrParameter(label, raw=v) (an enumerated parameter: derived value a label - possibly the
# EMPTY string -, raw value an integer); labels and literals are compared as strings
KINDS5 = KINDS4 + ("str",)
LABELS = ("", "ON", "5", "abc", "ON ")          # ("ON " with a trailing blank: white space is part of a label / literal)
LITERALS = ("0", "5", "-2", "2.5", "abc", "", "ON ")

META = {
    "level": "model_checking",
    "claim": "With the referenced parameters' values and raw values symbolic (integers in [-2^15, 2^15), reals unconstrained; zero, negative and "
             "integer-versus-float operand pairs are therefore ordinary assignments), z3 proves for every operator spelling (16), both value "
             "selectors, five parameter kinds (integer, calibrated float, float, boolean, and - single comparisons - string labels including the empty string) and a listed set of literals that the real Comparison/Condition.evaluate return exactly the "
             "truth value of the mathematical relation (or an error when the literal cannot be read in the value's type), for every "
             "BooleanExpression tree shape up to 4 leaves / depth 3 (thorough: 5 leaves) that evaluation equals the recursive AND/OR of the "
             "leaf relations, that one Comparison / Condition object evaluated on two packets in a row (the parameter being of a different kind in each) is right both times, that comparison lists are conjunctions, and that discrete lookups return the value of the first entry whose "
             "criteria all hold.",
    "trusted": "z3 (BV for integers, LRA for reals, bv2int at the int/real boundary); the proxies mirror CPython's int.__op__(float) -> "
               "NotImplemented and float's reflected comparison; every path cross-validated against the unpatched classes",
    "bounds": {"quick": {"tree leaves": 4, "depth": 3, "int range": "[-32768, 32767]", "lookup entries": 3},
               "thorough": {"tree leaves": 5, "depth": 3, "int range": "[-32768, 32767]", "lookup entries": 3},
               "both": {"wide integers": "values in [-2^63, 2^64) against literals 2^53, 2^53+1, 2^64-1, -2^63, 2^63-1"}},
    "stubs": ["warnings.warn recorded"],
    "outside_claim": ["bytes operands (the library has no way to read a literal as bytes)", "two-parameter conditions between strings", "NaN and infinities", "float rounding (reals)"],
    "assumptions": [],
}


def choose(ctx, name, n):
    return ctx.choose(name, n)


class Params:
    """three symbolic parameters of the given kinds placed in a real CCSDSPacket"""

    def __init__(self, ctx, lib, kinds):
        self.lib = lib
        self.kinds = kinds
        self.v = []      # integer terms (BV)
        self.r = []      # real terms
        self.packet = lib.packets.CCSDSPacket(raw_data=b"")
        W = bv.W
        for i, k in enumerate(kinds):
            v = z3.BitVec(f"v{i}", W)
            r = z3.Real(f"r{i}")
            ctx.assume(z3.And(v >= -32768, v <= 32767))
            ctx.assume(z3.And(r >= -100000, r <= 100000))
            self.v.append(v)
            self.r.append(r)
            name = f"P{i}"
            if k == "int":
                self.packet[name] = lib.common.IntParameter(bv.SymInt(v, nb=16))
            elif k == "cal":
                self.packet[name] = lib.common.FloatParameter(bv.SymReal(r), lib.common.IntParameter(bv.SymInt(v, nb=16)))
            elif k == "bool":
                raw = bv.SymInt(v, nb=16)
                self.packet[name] = lib.common.BoolParameter(bool(raw), raw)
            elif k == "str":
                self.labels = getattr(self, "labels", {})
                self.labels[i] = LABELS[ctx.choose(f"label{i}", len(LABELS))]
                self.packet[name] = lib.common.StrParameter(self.labels[i], lib.common.IntParameter(bv.SymInt(v, nb=16)))
            else:
                self.packet[name] = lib.common.FloatParameter(bv.SymReal(r))

    def selected(self, i, calibrated):
        """('int', bv term) or ('real', real term) the criterion must look at"""
        k = self.kinds[i]
        if k == "int":
            return "int", self.v[i]
        if k == "cal":
            return ("real", self.r[i]) if calibrated else ("int", self.v[i])
        if k == "str":
            return ("str", self.labels[i]) if calibrated else ("int", self.v[i])
        if k == "bool":
            W = bv.W
            return ("int", z3.If(self.v[i] != 0, z3.BitVecVal(1, W), z3.BitVecVal(0, W))) if calibrated else ("int", self.v[i])
        return "real", self.r[i]

    def inputs(self):
        d = {"kinds": list(self.kinds)}
        for i, lab in getattr(self, "labels", {}).items():
            d[f"label{i}"] = lab
        for i in range(len(self.kinds)):
            d[f"v{i}"] = bv.SymInt(self.v[i])
            d[f"r{i}"] = bv.SymReal(self.r[i])
        return d


def as_real(sel):
    t, x = sel
    return bv.bv2real(x, 16) if t == "int" else x


def rel_term(op, a, b):
    """mathematical relation between two selected values (int/int stays BV, str/str is decided on the spot, anything else over the reals)"""
    if a[0] == "str" or b[0] == "str":
        return z3.BoolVal(PYREL[op](a[1], b[1]))
    if a[0] == "int" and b[0] == "int":
        return REL[op](a[1], b[1])
    return REL[op](as_real(a), as_real(b))


def literal_for(sel_type, lit):
    """the literal read in the type of the value: ('int', term) / ('real', term) / None if it cannot be read"""
    try:
        if sel_type == "str":
            return "str", lit
        if sel_type == "int":
            return "int", z3.BitVecVal(int(lit), bv.W)
        return "real", bv.real_of(float(lit))
    except ValueError:
        return None


def _r(x):
    return x if x is True or x is False or x is None else repr(x)


def outcome(fn):
    try:
        return fn(), None
    except Exception as e:   # noqa: BLE001 - library outcome
        return None, type(e).__name__


def judge_bool(label, got, exc, want_term, obl):
    if exc is not None:
        obl.append((f"{label}: no error", False))
        return "exc:" + exc
    if got is True:
        obl.append((f"{label}: True only if the relation holds", want_term))
        return "True"
    if got is False:
        obl.append((f"{label}: False only if the relation fails", z3.Not(want_term)))
        return "False"
    obl.append((f"{label}: returns a bool", False))
    return "non-bool:" + type(got).__name__


class ComparisonH(Harness):
    """single Comparison: operator spelling x selector x kind x literal (picked), values symbolic"""
    kind = "comparison"

    def run(self, ctx):
        lib = self.lib
        spellings = list(OPS)
        cfg = choose(ctx, "cfg", len(spellings) * 2 * len(KINDS5) * len(LITERALS) * 2)
        sp = spellings[cfg % len(spellings)]
        cfg //= len(spellings)
        cal = bool(cfg % 2)
        cfg //= 2
        kind = KINDS5[cfg % 5]
        cfg //= 5
        lit = LITERALS[cfg % len(LITERALS)]
        cfg //= len(LITERALS)
        in_packet = bool(cfg % 2)          # False: the parameter is not in the packet, compared against the current raw value
        P = Params(ctx, lib, (kind,))
        comp = lib.comparisons.Comparison(lit, "P0" if in_packet else "OTHER", operator=sp, use_calibrated_value=cal)
        cur = None
        if in_packet:
            sel = P.selected(0, cal)
        else:
            if kind in ("int", "bool", "str"):
                cur = lib.common.IntParameter(bv.SymInt(P.v[0], nb=16))
                sel = ("int", P.v[0])
            else:
                cur = lib.common.FloatParameter(bv.SymReal(P.r[0]))
                sel = ("real", P.r[0])
        got, exc = outcome(lambda: comp.evaluate(P.packet, cur))
        litv = literal_for(sel[0], lit)
        obl = []
        if litv is None:
            cls = "uncoercible"        # a literal that cannot be read in the value's type: the property makes no statement (the library raises)
        else:
            cls = judge_bool(f"{sp}", got, exc, rel_term(OPS[sp], sel, litv), obl)
        inputs = dict(P.inputs(), op=sp, cal=cal, lit=lit, in_packet=in_packet)
        return result(cls, obl, observe={"result": _r(got) if exc is None else None, "exc": exc, "cls": "ran"}, inputs=inputs)


WIDE_LITS = ("9007199254740993", "9007199254740992", "18446744073709551615", "-9223372036854775808", "9223372036854775807")


class WideH(Harness):
    """integer operands at the extremes: values over the whole signed / unsigned 64-bit range against literals just beyond 2^53 (where a detour
    through float would lose the last bit) and at the 64-bit limits; the relation is decided exactly on bit-vectors"""
    kind = "wide"

    def run(self, ctx):
        lib = self.lib
        W = bv.W
        cfg = choose(ctx, "cfg", len(HIST_OPS) * len(WIDE_LITS) * 2 * 2)
        sp = HIST_OPS[cfg % len(HIST_OPS)]
        cfg //= len(HIST_OPS)
        lit = WIDE_LITS[cfg % len(WIDE_LITS)]
        cfg //= len(WIDE_LITS)
        cal, what = bool(cfg % 2), ("comparison", "condition")[(cfg // 2) % 2]
        v = z3.BitVec("v0", W)
        ctx.assume(z3.And(v >= -(1 << 63), v < (1 << 64)))
        pkt = lib.packets.CCSDSPacket(raw_data=b"")
        pkt["P0"] = lib.common.IntParameter(bv.SymInt(v))
        if what == "comparison":
            obj = lib.comparisons.Comparison(lit, "P0", operator=sp, use_calibrated_value=cal)
        else:
            obj = lib.comparisons.Condition("P0", sp, right_value=lit, left_use_calibrated_value=cal, right_use_calibrated_value=False)
        got, exc = outcome(lambda: obj.evaluate(pkt))
        obl = []
        cls = judge_bool(f"{sp} {lit}", got, exc, REL[OPS[sp]](v, z3.BitVecVal(int(lit), W)), obl)
        return result(cls, obl, observe={"result": _r(got) if exc is None else None, "exc": exc, "cls": "ran"},
                      inputs={"v0": bv.SymInt(v), "op": sp, "lit": lit, "cal": cal, "what": what})


LOADED = [  # criteria as they are written in a DOCUMENT (loaded with from_xtce), literal taken from LOADED_LITS
    lambda lit: templates.CMPD("P0", lit),                                                             # Comparison, optional attributes omitted
    lambda lit: templates.CMP("P0", lit, "!=", cal="true"),
    lambda lit: "<xtce:BooleanExpression>" + templates.COND("P0", "==", v=lit, lcal="true") + "</xtce:BooleanExpression>",
    lambda lit: templates.CMPLIST(templates.CMP("P0", lit, "==", cal="true"), templates.CMP("P0", "-40000", ">=", cal="false")),
]
LOADED_LITS = ("ON", "ON ", " ON", "5", " 5")


class LoadedH(Harness):
    """criteria objects that come out of the LOADER: a small document whose child container carries the criteria is loaded with from_xtce and the
    loaded criteria are evaluated on a packet whose parameter is a label (white space included) or an integer"""
    kind = "loaded"

    def run(self, ctx):
        import io
        lib = self.lib
        cfg = choose(ctx, "cfg", len(LOADED) * len(LOADED_LITS) * 2)
        form, lit, kind = cfg % len(LOADED), LOADED_LITS[(cfg // len(LOADED)) % len(LOADED_LITS)], ("str", "int")[cfg // (len(LOADED) * len(LOADED_LITS))]
        xml = templates.doc(types=templates.I("U8_T", 8), params=[("P0", "U8_T")], root_entries=[],
                            children=templates.cont("CH", ["P0"], "CCSDSPacket", LOADED[form](lit)))
        crits = lib.definitions.XtcePacketDefinition.from_xtce(io.BytesIO(xml)).containers["CH"].restriction_criteria
        P = Params(ctx, lib, (kind,))
        got, exc = outcome(lambda: all(c.evaluate(P.packet) for c in crits))
        sel = P.selected(0, True)
        litv = literal_for(sel[0], lit)
        inputs = dict(P.inputs(), form=form, lit=lit)
        if litv is None:
            return result("uncoercible", [], observe={"cls": "ran"}, inputs=inputs)
        want = rel_term("ne" if form == 1 else "eq", sel, litv)
        if form == 3:
            want = z3.And(want, P.v[0] >= -40000)
        obl = []
        cls = judge_bool(f"loaded criteria form {form} literal {lit!r}", got, exc, want, obl)
        return result(cls, obl, observe={"result": _r(got) if exc is None else None, "exc": exc, "cls": "ran"}, inputs=inputs)


HIST_OPS = ("==", "!=", "<", "gt", "leq", ">=")


class HistoryH(Harness):
    """ONE Comparison (or Condition) object evaluated on two packets in a row, the referenced parameter being of a possibly DIFFERENT kind in
    each (integer / calibrated float / float): every evaluation must be the mathematical truth for ITS packet (the literal read in the type
    of the value it is compared to THIS time)."""
    kind = "history"

    def run(self, ctx):
        lib = self.lib
        cfg = choose(ctx, "cfg", len(HIST_OPS) * 2 * 16 * 3 * 2)
        sp = HIST_OPS[cfg % len(HIST_OPS)]
        cfg //= len(HIST_OPS)
        cal = bool(cfg % 2)
        cfg //= 2
        k1, k2 = KINDS4[cfg % 4], KINDS4[(cfg // 4) % 4]
        cfg //= 16
        lit = ("1", "0", "-2")[cfg % 3]
        cfg //= 3
        what = ("comparison", "condition")[cfg % 2]
        P = Params(ctx, lib, (k1, k2))
        if what == "comparison":
            obj = lib.comparisons.Comparison(lit, "P0", operator=sp, use_calibrated_value=cal)
        else:
            obj = lib.comparisons.Condition("P0", sp, right_value=lit, left_use_calibrated_value=cal, right_use_calibrated_value=False)
        obl, classes, obs = [], [], []
        for n in (0, 1):
            pkt = lib.packets.CCSDSPacket(raw_data=b"")
            pkt["P0"] = P.packet[f"P{n}"]
            got, exc = outcome(lambda: obj.evaluate(pkt))        # noqa: B023 - evaluated immediately
            sel = P.selected(n, cal)
            classes.append(judge_bool(f"evaluation {n + 1} ({P.kinds[n]} value)", got, exc, rel_term(OPS[sp], sel, literal_for(sel[0], lit)), obl))
            obs.append(_r(got) if exc is None else "exc:" + exc)
        inputs = dict(P.inputs(), op=sp, cal=cal, lit=lit, what=what)
        return result("/".join(classes), obl, observe={"results": obs, "cls": "ran"}, inputs=inputs)


CONDS = [  # (left index, op, right: ('p', index) | ('v', literal), left_cal, right_cal)
    (0, ">", ("p", 1), True, True), (1, "==", ("v", "5"), True, False), (2, "leq", ("p", 0), False, True), (0, "!=", ("v", "0"), False, False),
    (1, "&lt;", ("p", 2), True, False), (2, "geq", ("v", "-2"), True, False), (0, "eq", ("p", 2), True, True), (1, "&gt;=", ("p", 0), False, False),
    # the same comparison with different value selectors (must not be confused with one another)
    (2, "<", ("p", 0), True, True), (2, "<", ("p", 0), False, True), (2, "<", ("p", 0), True, False), (2, "==", ("v", "5"), True, False), (2, "==", ("v", "5"), False, False),
]


def shapes(max_leaves, max_depth):
    """all alternating AND/OR trees: ('C',) | ('A', n_conditions, [or-subtrees]) | ('O', n_conditions, [and-subtrees])"""
    def gen(kind, leaves, depth):
        other = "O" if kind == "A" else "A"
        out = []
        for nc in range(0, leaves + 1):
            rest = leaves - nc
            if rest == 0:
                if nc >= 1:
                    out.append((kind, nc, []))
                continue
            if depth <= 1:
                continue
            for nsub in range(1, rest + 1):
                for split in compositions(rest, nsub):
                    for combo in itertools.product(*[gen(other, s, depth - 1) for s in split]):
                        out.append((kind, nc, list(combo)))
        return out

    def compositions(n, k):
        if k == 1:
            yield (n,)
            return
        for first in range(1, n - k + 2):
            for rest in compositions(n - first, k - 1):
                yield (first,) + rest
    res = [("C",)]
    for leaves in range(1, max_leaves + 1):
        res += gen("A", leaves, max_depth) + gen("O", leaves, max_depth)
    # sub-trees must be non-increasing to avoid counting permutations twice? (kept: order matters for short-circuiting)
    return res


class TreeH(Harness):
    """BooleanExpression over an enumerated tree shape; leaves drawn round-robin from CONDS; kinds picked"""
    kind = "tree"

    def build(self, lib, shape, counter):
        C = lib.comparisons

        def cond():
            i = counter[0] % len(CONDS)
            counter[0] += 1
            l, op, r, lc, rc = CONDS[i]
            if r[0] == "p":
                return C.Condition(f"P{l}", op, right_param=f"P{r[1]}", left_use_calibrated_value=lc, right_use_calibrated_value=rc), CONDS[i]
            return C.Condition(f"P{l}", op, right_value=r[1], left_use_calibrated_value=lc, right_use_calibrated_value=False), CONDS[i]

        def rec(sh):
            if sh[0] == "C":
                c, d = cond()
                return c, ("C", d)
            conds = [cond() for _ in range(sh[1])]
            subs = [rec(s) for s in sh[2]]
            node = (C.Anded if sh[0] == "A" else C.Ored)([c for c, _ in conds], [s for s, _ in subs])
            return node, (sh[0], [d for _, d in conds], [d for _, d in subs])
        return rec(shape)

    def oracle(self, P, desc):
        if desc[0] == "C":
            l, op, r, lc, rc = desc[1]
            a = P.selected(l, lc)
            if r[0] == "p":
                b = P.selected(r[1], rc)
            else:
                b = literal_for(a[0], r[1])
                if b is None:
                    return None
            return rel_term(OPS[op], a, b)
        leaves = [self.oracle(P, ("C", d)) for d in desc[1]] + [self.oracle(P, s) for s in desc[2]]
        if any(x is None for x in leaves):
            return None
        return (z3.And if desc[0] == "A" else z3.Or)(leaves)

    def run(self, ctx):
        lib = self.lib
        shape = self.job["params"]["shape"]
        kc = choose(ctx, "kinds", len(self.job["params"]["kindsets"]))
        kinds = tuple(self.job["params"]["kindsets"][kc])
        P = Params(ctx, lib, kinds)
        node, desc = self.build(lib, shape, [self.job["params"]["rot"]])
        be = lib.comparisons.BooleanExpression(node)
        got, exc = outcome(lambda: be.evaluate(P.packet))
        want = self.oracle(P, desc)
        obl = []
        if want is None:
            cls = "uncoercible"
        else:
            cls = judge_bool("tree", got, exc, want, obl)
        inputs = dict(P.inputs(), shape=shape, rot=self.job["params"]["rot"])
        return result(cls, obl, observe={"result": _r(got) if exc is None else None, "exc": exc, "cls": "ran"}, inputs=inputs)


LOOKUPS = [  # entries: ([(param index, op, literal, calibrated)], value)   (entry 4 has the value 0: a zero-length field is a legal looked-up length)
    ([(0, "==", "5", True)], 16.0), ([(0, ">", "0", True), (1, "<", "2", False)], 24.0), ([(1, "!=", "0", True)], 8.0),
    ([(2, ">=", "-2", True)], 32.0), ([(1, ">", "3", True)], 0.0),
]


class LookupH(Harness):
    """DiscreteLookup.evaluate and the first-match loops in the string / binary size computations"""
    kind = "lookup"

    def run(self, ctx):
        lib = self.lib
        C = lib.comparisons
        which = self.job["params"]["which"]            # 'single' | 'binary' | 'string'
        perm = self.job["params"]["perm"]
        P = Params(ctx, lib, ("int", "int", "int"))
        entries = [LOOKUPS[i] for i in perm]
        dls = [C.DiscreteLookup([C.Comparison(lit, f"P{pi}", operator=op, use_calibrated_value=cal) for pi, op, lit, cal in crit], val)
               for crit, val in entries]
        holds = [z3.And([rel_term(OPS[op], P.selected(pi, cal), literal_for("int", lit)) for pi, op, lit, cal in crit]) for crit, _ in entries]
        obl = []
        inputs = dict(P.inputs(), which=which, perm=list(perm))
        if which == "single":
            got, exc = outcome(lambda: dls[0].evaluate(P.packet))
            if exc is not None:
                obl.append(("lookup: no error", False))
                cls = "exc:" + exc
            elif got is None:
                obl.append(("None only if some criterion fails", z3.Not(holds[0])))
                cls = "none"
            else:
                obl.append(("value only if all criteria hold", holds[0]))
                obl.append(("value is the entry's value", got == entries[0][1]))
                cls = "value"
            return result(cls, obl, observe={"value": got if exc is None else None, "exc": exc, "cls": "ran"}, inputs=inputs)
        if which == "binary":
            enc = lib.encodings.BinaryDataEncoding(size_discrete_lookup_list=dls)
        else:
            enc = lib.encodings.StringDataEncoding(discrete_lookup_length=dls)
        got, exc = outcome(lambda: enc._calculate_size(P.packet))
        none_hold = z3.Not(z3.Or(holds))
        if exc is not None:
            obl.append((f"error ({exc}) only if no entry matches", none_hold))
            cls = "exc:" + exc
            val = None
        else:
            val = float(got) if isinstance(got, (int, float)) else None
            idx = [i for i, (_, v) in enumerate(entries) if v == val]
            obl.append(("size is one of the entries' values", len(idx) == 1))
            if len(idx) == 1:
                i = idx[0]
                obl.append(("selected entry holds and no earlier entry does", z3.And([holds[i]] + [z3.Not(h) for h in holds[:i]])))
            cls = "selected"
        return result(cls, obl, observe={"value": val, "exc": exc, "cls": "ran"}, inputs=inputs)


class Twin(ComparisonH):
    def run(self, ctx):
        r = super().run(ctx)
        r.obligations = [("reachability twin", z3.BoolVal(False))]
        return r


def make(job):
    lib = bv.install(96 if job["h"] == "wide" else 64)
    h = {"comparison": ComparisonH, "loaded": LoadedH, "wide": WideH, "history": HistoryH, "tree": TreeH, "lookup": LookupH, "twin": Twin}[job["h"]](job)
    h.lib = lib
    return h


KINDSETS = [("int", "int", "int"), ("int", "float", "cal"), ("cal", "int", "float"), ("float", "cal", "int")]


def jobs(tier):
    out = [{"name": "comparison", "h": "comparison", "params": {}, "split": 32, "chunk": 40, "must_reach": ["True", "False", "uncoercible"]}]
    out.append({"name": "loaded-criteria", "h": "loaded", "params": {}, "split": 8, "chunk": 40, "must_reach": ["True", "False"]})
    out.append({"name": "wide-integers", "h": "wide", "params": {}, "split": 16, "chunk": 40, "must_reach": ["True", "False"]})
    out.append({"name": "history", "h": "history", "params": {}, "split": 32, "chunk": 40, "must_reach": ["True/False", "False/True"]})
    sh = shapes(4 if tier == "quick" else 5, 3)
    for n, s in enumerate(sh):
        out.append({"name": f"tree-{n}", "h": "tree", "params": {"shape": s, "rot": n, "kindsets": KINDSETS}, "must_reach": [], "split": 8, "chunk": 60})
    for which in ("single", "binary", "string"):
        for perm in ([(0, 1, 2), (2, 1, 0), (1, 3, 0), (4, 1, 3), (0, 4, 2)] if which != "single" else [(0,), (1,), (4,)]):
            out.append({"name": f"lookup-{which}-{''.join(map(str, perm))}", "h": "lookup", "params": {"which": which, "perm": perm}, "must_reach": []})
    return out


def vacuity_jobs():
    return [{"name": "twin-comparison", "h": "twin", "params": {}, "max_paths": 40}]


# ------------------------------------------------------------------------------------------------- concrete side
def _frac(x):
    from fractions import Fraction
    return Fraction(x["q"]) if isinstance(x, dict) else Fraction(x)


def _mkpacket(i):
    from space_packet_parser import common, packets
    pkt = packets.CCSDSPacket(raw_data=b"")
    vals = []
    for n, k in enumerate(i["kinds"]):
        v, r = i[f"v{n}"], float(_frac(i[f"r{n}"]))
        if k == "int":
            pkt[f"P{n}"] = common.IntParameter(v)
        elif k == "cal":
            pkt[f"P{n}"] = common.FloatParameter(r, common.IntParameter(v))
        elif k == "bool":
            pkt[f"P{n}"] = common.BoolParameter(bool(v), v)
        elif k == "str":
            pkt[f"P{n}"] = common.StrParameter(i[f"label{n}"], common.IntParameter(v))
        else:
            pkt[f"P{n}"] = common.FloatParameter(r)
        vals.append((v, r))
    return pkt, vals


def _enc_result(fn):
    try:
        r = fn()
    except Exception as e:   # noqa: BLE001
        return {"cls": "ran", "result": None, "value": None, "exc": type(e).__name__}
    if r is True or r is False or r is None or r is NotImplemented:
        return {"cls": "ran", "result": _r(r), "value": _r(r), "exc": None}
    if isinstance(r, (int, float)):
        return {"cls": "ran", "result": repr(r), "value": {"f": float(r).hex()}, "exc": None}
    return {"cls": "ran", "result": repr(r), "value": repr(r), "exc": None}


def packets_mod():
    from space_packet_parser import packets
    return packets


def concrete(req):
    from space_packet_parser import common
    from space_packet_parser.xtce import comparisons as C, encodings
    i = req["input"]
    if req["kind"] == "loaded":
        import io
        from space_packet_parser.xtce import definitions
        xml = templates.doc(types=templates.I("U8_T", 8), params=[("P0", "U8_T")], root_entries=[],
                            children=templates.cont("CH", ["P0"], "CCSDSPacket", LOADED[i["form"]](i["lit"])))
        crits = definitions.XtcePacketDefinition.from_xtce(io.BytesIO(xml)).containers["CH"].restriction_criteria
        pkt, _ = _mkpacket(i)
        return _enc_result(lambda: all(c.evaluate(pkt) for c in crits))
    if req["kind"] == "wide":
        pkt = packets_mod().CCSDSPacket(raw_data=b"")
        pkt["P0"] = common.IntParameter(i["v0"])
        obj = C.Comparison(i["lit"], "P0", operator=i["op"], use_calibrated_value=i["cal"]) if i["what"] == "comparison" else \
            C.Condition("P0", i["op"], right_value=i["lit"], left_use_calibrated_value=i["cal"], right_use_calibrated_value=False)
        return _enc_result(lambda: obj.evaluate(pkt))
    pkt, vals = _mkpacket(i)
    if req["kind"] in ("comparison", "twin"):
        comp = C.Comparison(i["lit"], "P0" if i["in_packet"] else "OTHER", operator=i["op"], use_calibrated_value=i["cal"])
        cur = None
        if not i["in_packet"]:
            cur = common.IntParameter(vals[0][0]) if i["kinds"][0] in ("int", "bool", "str") else common.FloatParameter(vals[0][1])
        import warnings
        with warnings.catch_warnings():
            warnings.simplefilter("ignore")
            return _enc_result(lambda: comp.evaluate(pkt, cur))
    if req["kind"] == "wide":
        pkt = packets_mod().CCSDSPacket(raw_data=b"")
        pkt["P0"] = common.IntParameter(i["v0"])
        obj = C.Comparison(i["lit"], "P0", operator=i["op"], use_calibrated_value=i["cal"]) if i["what"] == "comparison" else \
            C.Condition("P0", i["op"], right_value=i["lit"], left_use_calibrated_value=i["cal"], right_use_calibrated_value=False)
        return _enc_result(lambda: obj.evaluate(pkt))
    if req["kind"] == "history":
        if i["what"] == "comparison":
            obj = C.Comparison(i["lit"], "P0", operator=i["op"], use_calibrated_value=i["cal"])
        else:
            obj = C.Condition("P0", i["op"], right_value=i["lit"], left_use_calibrated_value=i["cal"], right_use_calibrated_value=False)
        res = []
        for n in (0, 1):
            from space_packet_parser import packets
            p2 = packets.CCSDSPacket(raw_data=b"")
            p2["P0"] = pkt[f"P{n}"]
            r = _enc_result(lambda: obj.evaluate(p2))      # noqa: B023
            res.append(r["result"] if r["exc"] is None else "exc:" + r["exc"])
        return {"cls": "ran", "results": res}
    if req["kind"] == "tree":
        class _L:
            comparisons = C
        node, _ = TreeH.build(None, _L, _tuple(i["shape"]), [i["rot"]])
        return _enc_result(lambda: C.BooleanExpression(node).evaluate(pkt))
    entries = [LOOKUPS[k] for k in i["perm"]]
    dls = [C.DiscreteLookup([C.Comparison(lit, f"P{pi}", operator=op, use_calibrated_value=cal) for pi, op, lit, cal in crit], val) for crit, val in entries]
    if i["which"] == "single":
        return _enc_result(lambda: dls[0].evaluate(pkt))
    enc = encodings.BinaryDataEncoding(size_discrete_lookup_list=dls) if i["which"] == "binary" else encodings.StringDataEncoding(discrete_lookup_length=dls)
    return _enc_result(lambda: enc._calculate_size(pkt))


def _tuple(x):
    return tuple(_tuple(y) if isinstance(y, list) and y and isinstance(y[0], (str, list)) and not isinstance(y[0], int) else y for y in x) if isinstance(x, list) else x


def _sel(i, n, cal):
    k = i["kinds"][n]
    if k == "str":
        return (str, i[f"label{n}"]) if cal else (int, i[f"v{n}"])
    if k == "bool":
        return int, (int(i[f"v{n}"] != 0) if cal else i[f"v{n}"])
    if k == "int" or (k == "cal" and not cal):
        return int, i[f"v{n}"]
    return float, _frac(i[f"r{n}"])


def judge(req, got):
    """Independent oracle on concrete values with exact rationals."""
    from fractions import Fraction
    if got.get("cls") in ("WORKER-ERROR", "WORKER-DIED", "TIMEOUT"):
        return "error", str(got)[:300]
    i = req["input"]

    def lit(t, s):
        return int(s) if t is int else Fraction(float(s))

    def cond(d):
        l, op, r, lc, rc = d
        ta, a = _sel(i, l, lc)
        if r[0] == "p":
            _, b = _sel(i, r[1], rc)
        else:
            b = lit(ta, r[1])
        return PYREL[OPS[op]](Fraction(a), Fraction(b))
    if req["kind"] in ("comparison", "twin"):
        if i["in_packet"]:
            t, a = _sel(i, 0, i["cal"])
        else:
            t, a = (int, i["v0"]) if i["kinds"][0] in ("int", "bool", "str") else (float, _frac(i["r0"]))
        if t is str:
            want = PYREL[OPS[i["op"]]](a, i["lit"])
            desc = f"Comparison(P {i['op']} {i['lit']!r}, calibrated=True) on the label {a!r}"
            if got["exc"] is not None or got["result"] is not want:
                return "reproduced", f"{desc}: expected {want}, got {got['result']!r} exc={got['exc']}"
            return "not-reproduced", "agrees"
        try:
            b = lit(t, i["lit"])
        except ValueError:
            return "not-reproduced", "uncoercible literal: no statement"
        want = PYREL[OPS[i["op"]]](Fraction(a), Fraction(b))
        desc = f"Comparison(P {i['op']} {i['lit']}, calibrated={i['cal']}, in_packet={i['in_packet']}) kind={i['kinds'][0]} value={a}"
        if got["exc"] is not None or got["result"] is not want:
            return "reproduced", f"{desc}: expected {want}, got {got['result']!r} exc={got['exc']}"
        return "not-reproduced", "agrees"
    if req["kind"] == "loaded":
        t, a = _sel(i, 0, True)
        try:
            b = i["lit"] if t is str else int(i["lit"])
        except ValueError:
            return "not-reproduced", "uncoercible literal: no statement"
        want = (a != b) if i["form"] == 1 else (a == b)
        if i["form"] == 3:
            want = want and i["v0"] >= -40000
        if got["exc"] is not None or got["result"] is not want:
            return "reproduced", f"criteria form {i['form']} with the literal {i['lit']!r} as loaded from a document, on the value {a!r}: expected {want}, got {got['result']!r} exc={got['exc']}"
        return "not-reproduced", "agrees"
    if req["kind"] == "wide":
        want = PYREL[OPS[i["op"]]](i["v0"], int(i["lit"]))
        if got["exc"] is not None or got["result"] is not want:
            return "reproduced", f"{i['what']} P0 {i['op']} {i['lit']} (calibrated={i['cal']}) on the integer value {i['v0']}: expected {want}, got {got['result']!r} exc={got['exc']}"
        return "not-reproduced", "agrees"
    if req["kind"] == "history":
        bad = []
        for n in (0, 1):
            t, a = _sel(i, n, i["cal"])
            want = PYREL[OPS[i["op"]]](Fraction(a), Fraction(lit(t, i["lit"])))
            if got["results"][n] is not want:
                bad.append(f"evaluation {n + 1} on a {i['kinds'][n]} value {a}: expected {want}, got {got['results'][n]!r}")
        if bad:
            return "reproduced", f"one {i['what']} object (P0 {i['op']} {i['lit']}, calibrated={i['cal']}) evaluated on two packets in a row: " + "; ".join(bad)
        return "not-reproduced", "agrees"
    if req["kind"] == "tree":
        counter = [i["rot"]]

        def rec(sh):
            if sh[0] == "C":
                d = CONDS[counter[0] % len(CONDS)]
                counter[0] += 1
                return cond(d)
            cs = []
            for _ in range(sh[1]):
                cs.append(cond(CONDS[counter[0] % len(CONDS)]))
                counter[0] += 1
            cs += [rec(s) for s in sh[2]]
            return all(cs) if sh[0] == "A" else any(cs)
        try:
            want = rec(i["shape"])
        except ValueError:
            return "not-reproduced", "uncoercible literal: no statement"
        vals = {k: v for k, v in i.items() if k[0] in "vr" and k[1:].isdigit()}
        if got["exc"] is not None or got["result"] is not want:
            return "reproduced", f"BooleanExpression shape {i['shape']} (conditions from #{i['rot']}) kinds={i['kinds']} values={vals}: expected {want}, got {got['result']!r} exc={got['exc']}"
        return "not-reproduced", "agrees"
    entries = [LOOKUPS[k] for k in i["perm"]]
    holds = [all(PYREL[OPS[op]](Fraction(_sel(i, pi, cal)[1]), Fraction(int(l))) for pi, op, l, cal in crit) for crit, _ in entries]
    if i["which"] == "single":
        want = entries[0][1] if holds[0] else None
        g = None if got["value"] is None else float.fromhex(got["value"]["f"])
        return ("not-reproduced", "agrees") if g == want and got["exc"] is None else ("reproduced", f"lookup expected {want}, got {got}")
    first = next((k for k, h in enumerate(holds) if h), None)
    if first is None:
        return ("not-reproduced", "agrees") if got["exc"] is not None else ("reproduced", f"no entry matches but got {got}")
    g = None if not isinstance(got["value"], dict) else float.fromhex(got["value"]["f"])
    return ("not-reproduced", "agrees") if g == entries[first][1] else ("reproduced", f"{i['which']} size: expected entry {first} -> {entries[first][1]}, got {got}")


def finding_key(f, req, got):
    i = req.get("input", {})
    k = req.get("kind")
    if k in ("comparison", "twin") and got.get("exc") == "ComparisonError" and i.get("cal") and i.get("in_packet"):
        return "C06:comparison-on-falsy-calibrated-value"
    if k == "tree" and "NotImplemented" in str(got.get("result")):
        return "C06:condition-int-vs-float-NotImplemented"
    return f"C06:{k}:{f['label'].split(':')[-1].strip()}"
