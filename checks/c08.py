"""C08 - calibration, enumeration and boolean derivation follow XTCE; raw value kept.

Real code executed: NumericDataEncoding.parse_value (context -> default -> raw selection, result classes),
SplineCalibrator.calibrate (_zero_order_spline_interp, _first_order_spline_interp), PolynomialCalibrator.calibrate,
ContextCalibrator.calibrate, EnumeratedParameterType.parse_value, BooleanParameterType.parse_value, Comparison.evaluate,
_Parameter.__new__ on the re-hosted value classes.
Symbolic: every bit of the raw field (8- and 12-bit, unsigned and signed; thorough 16-bit too) and a context parameter.
Concrete: the listed calibrator definitions.
Compositional: the raw value is proved equal to the field bits (BV), then the derived value is compared as f(raw) over
the reals with a relative tolerance of 1e-9 (the library folds constants in doubles, the oracle uses exact rationals).
"""
from fractions import Fraction

import z3

from spv import bv
from spv.harness import Harness, result

SPLINES = [
    [(0, 0), (10, 100)],
    [(1, -5.5), (2, 7.25), (4, 7.25)],
    [(-3, 2), (0, 0), (3, 9), (200, -50)],
    [(0.5, 1), (1.5, 3), (2.5, -2), (7, 0), (100.25, 1000)],
    [(-128, 1), (127, 2)],
    [(0, 5), (255, 6), (4095, 9)],
]
POLYS = [
    [(1.5, 0), (2.0, 1)],
    [(-3.25, 0), (0.0, 1), (0.5, 2)],
    [(2.0, 3), (-1.0, 1), (7.0, 0)],
    [(0.125, 2), (0.125, 2), (1.0, 0)],
    [(4.0, 0)],
]
FIELDS = [(8, "unsigned"), (8, "signed"), (12, "unsigned"), (12, "twosComplement"), (16, "unsigned"), (16, "signed")]
TOL = Fraction(1, 10 ** 9)

META = {
    "level": "model_checking",
    "claim": "With every bit of the raw field and of a context parameter symbolic, z3 proves for each listed calibrator definition (6 point sets x "
             "order {0,1} x extrapolate {F,T}; 5 polynomials up to degree 3 with negative, zero and repeated terms; context lists of up to 3 entries "
             "with and without a default, criteria on another parameter or on the field's own raw value) that the real decoder's derived value is "
             "the first matching context calibrator, else the default, else the raw value; that splines give step / linear interpolation over the "
             "CLOSED knot range (every knot and both end points are ordinary values of the symbolic raw), extrapolate only when enabled and raise "
             "CalibrationError otherwise; that polynomials evaluate their polynomial; that calibrated results are FloatParameters and uncalibrated "
             "integers IntParameters; that enumerations map the raw value to its label or raise ValueError; that booleans are the truthiness of the "
             "raw value; and that raw_value is always the uncalibrated field value.",
    "trusted": "z3 (BV + nonlinear real arithmetic for the polynomials); floats modelled as reals, comparison tolerance 1e-9 relative; every path "
               "cross-validated against the unpatched library on real doubles",
    "bounds": {"quick": {"field": "8 and 12 bits, unsigned and signed", "splines": len(SPLINES), "polynomials": len(POLYS), "context entries": 3},
               "thorough": {"field": "8, 12 and 16 bits", "splines": len(SPLINES), "polynomials": len(POLYS), "context entries": 3}},
    "stubs": ["struct.unpack uninterpreted (float-encoded raw input)", "enumeration dict lookup by a symbolic key = first equal key"],
    "outside_claim": ["floating-point rounding", "NaN / infinities", "spline order > 1 (NotImplementedError by design)", "MathOperationCalibrator"],
    "assumptions": ["spline raw coordinates strictly increasing"],
}


def R(x):
    return bv.real_of(x)


def close(a, b):
    """|a - b| <= 1e-9 * (1 + |b|)  (linear)"""
    tol = z3.RealVal(f"{TOL.numerator}/{TOL.denominator}")
    absb = z3.If(b >= 0, b, -b)
    d = a - b
    return z3.And(d <= tol * (1 + absb), -d <= tol * (1 + absb))


def spline_spec(points, order, x):
    """(value term, in-range term) for the closed range; exact rationals"""
    xs = [Fraction(p[0]) for p in points]
    ys = [Fraction(p[1]) for p in points]
    q = lambda f: z3.RealVal(f"{f.numerator}/{f.denominator}")

    def line(i, j):
        slope = (ys[j] - ys[i]) / (xs[j] - xs[i])
        return q(slope) * (x - q(xs[i])) + q(ys[i])
    inside = z3.And(x >= q(xs[0]), x <= q(xs[-1]))
    if order == 0:
        val = q(ys[-1])                      # x == last knot
        for j in range(len(xs) - 2, -1, -1):
            val = z3.If(x < q(xs[j + 1]), q(ys[j]), val)
        lo, hi = q(ys[0]), q(ys[-1])
    else:
        val = line(len(xs) - 2, len(xs) - 1)
        for j in range(len(xs) - 3, -1, -1):
            val = z3.If(x <= q(xs[j + 1]), line(j, j + 1), val)
        lo, hi = line(0, 1), line(len(xs) - 2, len(xs) - 1)
    return val, inside, lo, hi, q(xs[0]), q(xs[-1])


def poly_spec(coeffs, x):
    acc = z3.RealVal(0)
    for c, e in coeffs:
        t = R(c)
        for _ in range(e):
            t = t * x
        acc = acc + t
    return acc


def field_bits(items, p, n):
    bits = []
    for k in range(p, p + n):
        b = bv.byte_term(items[k // 8])
        bits.append(z3.Extract(7 - k % 8, 7 - k % 8, b))
    return bits[0] if n == 1 else z3.Concat(*bits)


def raw_spec(buf, off, w, enc):
    u = field_bits(buf.items, off, w)
    return z3.ZeroExt(bv.W - w, u) if enc == "unsigned" else z3.SignExt(bv.W - w, u)


def run_parse(fn):
    try:
        return fn(), None
    except Exception as e:   # noqa: BLE001 - library outcome
        return None, type(e).__name__


class Base(Harness):
    def setup_packet(self, ctx, w, enc_name, off=3, ctx_param=True, tag="", ctx_float=False):
        lib = self.lib
        nbytes = (off + w + 7) // 8 + 1
        buf = bv.fresh_bytes("B" + tag, nbytes)
        packet = lib.packets.CCSDSPacket(raw_data=buf)
        packet.raw_data.pos = off
        c = z3.BitVec("ctxp" + tag, bv.W)
        ctx.assume(z3.And(c >= -8, c <= 8))
        if ctx_param:
            if ctx_float:      # the context parameter is a calibrated (float) value that happens to be integral
                packet["CTX"] = lib.common.FloatParameter(bv.SymReal(bv.bv2real(c, 5)), lib.common.IntParameter(bv.SymInt(c, nb=4)))
            else:
                packet["CTX"] = lib.common.IntParameter(bv.SymInt(c, nb=4))
        return buf, packet, c

    def common_obligations(self, v, raw_term, cls_expected, obl):
        lib = self.lib
        obl.append((f"value class is {cls_expected}", type(v) is getattr(lib.common, cls_expected)))
        rv = getattr(v, "raw_value", None)
        ok = isinstance(rv, bv.SymInt)
        obl.append(("raw_value is the uncalibrated field value", (rv.t == raw_term) if ok else False))
        return rv if ok else None


class SplineH(Base):
    kind = "spline"

    def run(self, ctx):
        lib = self.lib
        nf = self.job["params"]["nfields"]
        cfg = ctx.choose("cfg", len(SPLINES) * 4 * nf)
        pts = SPLINES[cfg % len(SPLINES)]
        cfg //= len(SPLINES)
        order, extrap = cfg % 2, bool((cfg // 2) % 2)
        w, enc_name = FIELDS[cfg // 4]
        cal = lib.calibrators.SplineCalibrator([lib.calibrators.SplinePoint(float(a), float(b)) for a, b in pts], order=order, extrapolate=extrap)
        enc = lib.encodings.IntegerDataEncoding(w, enc_name, default_calibrator=cal)
        pt = lib.parameter_types.IntegerParameterType("T", enc)
        buf, packet, c = self.setup_packet(ctx, w, enc_name, ctx_param=False)
        v, exc = run_parse(lambda: pt.parse_value(packet))
        raw = raw_spec(buf, 3, w, enc_name)
        x = bv.bv2real(raw, w)
        val, inside, lo, hi, x0, xm = spline_spec(pts, order, x)
        obl = []
        inputs = {"buf": buf, "w": w, "enc": enc_name, "pts": [[float(a), float(b)] for a, b in pts], "order": order, "extrap": extrap}
        if exc is not None:
            # "failing with a calibration error": any exception counts as the failure (the class name is not compared), but only where failing is allowed
            obl.append((f"a calibration failure ({exc}) only outside the closed range without extrapolation", z3.And(z3.Not(inside), z3.BoolVal(not extrap))))
            return result("exc", obl, observe={"exc": "raised", "cls": "ran"}, inputs=inputs)
        rv = self.common_obligations(v, raw, "FloatParameter", obl)
        if isinstance(v, bv.SymReal):
            if order == 0:
                want = z3.If(inside, val, z3.If(x > xm, hi, lo))
            else:
                want = z3.If(inside, val, z3.If(x > xm, hi, lo))     # hi / lo are the end-segment lines
            obl.append(("outside the range only when extrapolating", z3.Or(inside, z3.BoolVal(extrap))))
            obl.append((f"order-{order} spline value", close(v.t, want)))
        return result("calibrated", obl, observe={"value": v, "raw": rv, "exc": None, "cls": "ran"}, inputs=inputs)


class PolyH(Base):
    kind = "poly"

    def run(self, ctx):
        lib = self.lib
        nf = self.job["params"]["nfields"]
        cfg = ctx.choose("cfg", len(POLYS) * nf)
        coeffs = POLYS[cfg % len(POLYS)]
        w, enc_name = FIELDS[cfg // len(POLYS)]
        cal = lib.calibrators.PolynomialCalibrator([lib.calibrators.PolynomialCoefficient(float(a), e) for a, e in coeffs])
        enc = lib.encodings.IntegerDataEncoding(w, enc_name, default_calibrator=cal)
        pt = lib.parameter_types.IntegerParameterType("T", enc)
        buf, packet, c = self.setup_packet(ctx, w, enc_name, ctx_param=False)
        v, exc = run_parse(lambda: pt.parse_value(packet))
        raw = raw_spec(buf, 3, w, enc_name)
        inputs = {"buf": buf, "w": w, "enc": enc_name, "coeffs": [[float(a), e] for a, e in coeffs]}
        obl = []
        if exc is not None:
            return result("exc:" + exc, [("polynomial calibration raises nothing", False)], observe={"exc": exc, "cls": "ran"}, inputs=inputs)
        rv = self.common_obligations(v, raw, "FloatParameter", obl)
        if isinstance(v, bv.SymReal) and rv is not None:
            x = bv.bv2real(rv)          # compositional: f(raw_impl) after raw_impl == raw_spec was proved above
            obl.append(("polynomial value", close(v.t, poly_spec(coeffs, x))))
        return result("calibrated", obl, observe={"value": v, "raw": rv, "exc": None, "cls": "ran"}, inputs=inputs)


CONTEXTS = [  # list of (criteria [(param, op, literal, calibrated)], calibrator index into CALS); default index or None
    ([([("CTX", "==", "0", True)], 0), ([("CTX", ">", "2", True)], 1)], 2),
    ([([("CTX", "==", "0", True)], 0), ([("CTX", ">", "2", True)], 1)], None),
    ([([("CTX", "<", "0", True), ("SELF", ">", "5", False)], 1), ([("SELF", "==", "0", False)], 0), ([("CTX", ">=", "-3", True)], 2)], None),
    ([([("SELF", "<=", "100", False)], 2)], 1),
    ([], 0),
    ([], None),
    # a context whose calibrator is a spline that does NOT extrapolate and does not cover the raw range: outside it the decode must FAIL (not fall through)
    ([([("CTX", ">=", "0", True)], 3)], 0),
    ([([("CTX", "<", "0", True)], 1), ([("CTX", ">=", "0", True)], 3)], None),
]
CALS = [("poly", [(10.0, 0), (1.0, 1)]), ("poly", [(0.0, 0), (-2.0, 1)]), ("spline", [(-4096, -1), (65536, 1)], 1, True), ("spline", [(2, 1.0), (20, -3.0)], 1, False)]
RELS = {"==": lambda a, b: a == b, ">": lambda a, b: a > b, "<": lambda a, b: a < b, ">=": lambda a, b: a >= b, "<=": lambda a, b: a <= b}


def mkcal(lib, spec):
    if spec[0] == "poly":
        return lib.calibrators.PolynomialCalibrator([lib.calibrators.PolynomialCoefficient(a, e) for a, e in spec[1]])
    return lib.calibrators.SplineCalibrator([lib.calibrators.SplinePoint(float(a), float(b)) for a, b in spec[1]], order=spec[2], extrapolate=spec[3])


def cal_spec(spec, x):
    if spec[0] == "poly":
        return poly_spec(spec[1], x)
    val, inside, lo, hi, x0, xm = spline_spec(spec[1], spec[2], x)
    return z3.If(inside, val, z3.If(x > xm, hi, lo))


class ContextH(Base):
    kind = "context"

    def run(self, ctx):
        lib = self.lib
        nf = self.job["params"]["nfields"]
        cfg = ctx.choose("cfg", len(CONTEXTS) * nf)
        entries, default = CONTEXTS[cfg % len(CONTEXTS)]
        w, enc_name = FIELDS[cfg // len(CONTEXTS)]
        C = lib.comparisons
        ccs = [lib.calibrators.ContextCalibrator([C.Comparison(lit, p, operator=op, use_calibrated_value=cal) for p, op, lit, cal in crit], mkcal(lib, CALS[ci]))
               for crit, ci in entries]
        enc = lib.encodings.IntegerDataEncoding(w, enc_name, default_calibrator=mkcal(lib, CALS[default]) if default is not None else None,
                                                context_calibrators=ccs or None)
        pt = lib.parameter_types.IntegerParameterType("T", enc)
        return self.rounds(ctx, pt, entries, default, w, enc_name, cfg % len(CONTEXTS))

    def rounds(self, ctx, pt, entries, default, w, enc_name, ci):
        cls, obl, obs, inputs = self.one(ctx, pt, entries, default, w, enc_name, "", False)
        inputs["cfg"] = ci
        return result(cls, obl, observe=obs, inputs=inputs)

    def one(self, ctx, pt, entries, default, w, enc_name, tag, ctx_float):
        buf, packet, c = self.setup_packet(ctx, w, enc_name, tag=tag, ctx_float=ctx_float)
        v, exc = run_parse(lambda: pt.parse_value(packet))
        raw = raw_spec(buf, 3, w, enc_name)
        inputs = {"buf" + tag: buf, "w": w, "enc": enc_name, "ctxp" + tag: bv.SymInt(c)}
        obl = []
        x = bv.bv2real(raw, w)

        def crit_term(p, op, lit):
            a = c if p == "CTX" else raw
            return RELS[op](a, z3.BitVecVal(int(lit), bv.W))
        holds = [z3.And([crit_term(p, op, lit) for p, op, lit, _ in crit]) for crit, _ in entries]

        # where the SELECTED calibrator (first context that holds, else the default) is a spline that does not extrapolate and the raw value
        # lies outside its points, decoding must FAIL - it must not fall through to the next context, the default or the raw value
        def outside(ci):
            spec = CALS[ci]
            if spec[0] != "spline" or spec[3]:
                return z3.BoolVal(False)
            return z3.Not(spline_spec(spec[1], spec[2], x)[1])
        must_fail, earlier = [], z3.BoolVal(True)
        for h, (_, ci) in zip(holds, entries):
            must_fail.append(z3.And(earlier, h, outside(ci)))
            earlier = z3.And(earlier, z3.Not(h))
        if default is not None:
            must_fail.append(z3.And(earlier, outside(default)))
        must_fail = z3.Or(must_fail) if must_fail else z3.BoolVal(False)
        if exc is not None:
            return "exc", [(f"context calibration fails ({exc}) only where the selected spline does not cover the raw value", must_fail)], {"exc": "raised", "cls": "ran"}, inputs
        obl.append(("a value only where the selected calibrator covers the raw value", z3.Not(must_fail)))
        # expected value: first context that holds, else default, else raw
        none = z3.Not(z3.Or(holds)) if holds else z3.BoolVal(True)
        if isinstance(v, bv.SymReal):
            rv = self.common_obligations(v, raw, "FloatParameter", obl)
            want = cal_spec(CALS[default], x) if default is not None else None
            cond_calibrated = z3.Or(holds) if holds else z3.BoolVal(False)
            if default is None:
                obl.append(("calibrated only if some context holds", cond_calibrated))
                want = z3.RealVal(0)
            for i in range(len(entries) - 1, -1, -1):
                want = z3.If(holds[i], cal_spec(CALS[entries[i][1]], x), want)
            obl.append(("first matching context, else default", close(v.t, want)))
            cls = "calibrated"
        else:
            rv = self.common_obligations(v, raw, "IntParameter", obl)
            obl.append(("uncalibrated only if no context holds and there is no default", z3.And(none, z3.BoolVal(default is None))))
            obl.append(("uncalibrated value is the raw value", (v.t == raw) if isinstance(v, bv.SymInt) else False))
            cls = "raw"
        return cls, obl, {"value": v, "raw": rv, "exc": None, "cls": "ran", "class": type(v).__name__}, inputs


class ContextTwiceH(ContextH):
    """the SAME parameter type object decodes two packets in a row; the context parameter is an integer in one and a calibrated (float,
    integral) value in the other: each result must be the one its own packet's context selects"""
    kind = "context2"

    def rounds(self, ctx, pt, entries, default, w, enc_name, ci):
        order = ctx.choose("order", 2)
        classes, obl, obs, inputs = [], [], {"cls": "ran"}, {"cfg": ci, "order": order}
        for n in (0, 1):
            fl = bool(n) == bool(order)
            cls, o, ob, inp = self.one(ctx, pt, entries, default, w, enc_name, str(n + 1), fl)
            classes.append(cls)
            obl += [(f"packet {n + 1} ({'float' if fl else 'integer'} context): {lab}", g) for lab, g in o]
            for k, v in ob.items():
                if k != "cls":
                    obs[f"{k}{n + 1}"] = v
            inputs.update(inp)
        return result("/".join(classes), obl, observe=obs, inputs=inputs)


ENUMS = [{0: "ZERO", 1: "ONE", 5: "FIVE"}, {-1: "NEG", 0: "OFF", 127: "MAX"}, {3: "ONLY"}]


class EnumBoolH(Base):
    kind = "enumbool"

    def run(self, ctx):
        lib = self.lib
        nf = self.job["params"]["nfields"]
        cfg = ctx.choose("cfg", (len(ENUMS) + 1) * 2 * nf)
        which = cfg % (len(ENUMS) + 1)
        cfg //= (len(ENUMS) + 1)
        with_cal = bool(cfg % 2)
        w, enc_name = FIELDS[cfg // 2]
        cal = mkcal(lib, CALS[0]) if with_cal else None
        enc = lib.encodings.IntegerDataEncoding(w, enc_name, default_calibrator=cal)
        if which < len(ENUMS):
            pt = lib.parameter_types.EnumeratedParameterType("T", enc, enumeration=bv.SymDict(ENUMS[which]))
        else:
            pt = lib.parameter_types.BooleanParameterType("T", enc)
        buf, packet, c = self.setup_packet(ctx, w, enc_name, ctx_param=False)
        v, exc = run_parse(lambda: pt.parse_value(packet))
        raw = raw_spec(buf, 3, w, enc_name)
        inputs = {"buf": buf, "w": w, "enc": enc_name, "which": which, "with_cal": with_cal}
        obl = []
        if which < len(ENUMS):
            listed = z3.Or([raw == k for k in ENUMS[which]])
            if exc is not None:
                obl.append((f"failure ({exc}) only for unlisted raw values", z3.Not(listed)))
                return result("exc", obl, observe={"exc": "raised", "cls": "ran"}, inputs=inputs)
            rv = self.common_obligations(v, raw, "StrParameter", obl)
            label = v.v if isinstance(v, bv.SymStr) and v.is_concrete() else None
            ks = [k for k, lab in ENUMS[which].items() if lab == label]
            obl.append(("label is one of the enumeration's", len(ks) == 1))
            if ks:
                obl.append(("label of the raw value", raw == ks[0]))
            return result("label", obl, observe={"value": label, "raw": rv, "exc": None, "cls": "ran"}, inputs=inputs)
        if exc is not None:
            return result("exc:" + exc, [("boolean derivation raises nothing", False)], observe={"exc": exc, "cls": "ran"}, inputs=inputs)
        rv = self.common_obligations(v, raw, "BoolParameter", obl)
        if isinstance(v, bv.SymInt):
            obl.append(("boolean is the truthiness of the raw value", v.t == z3.If(raw != 0, z3.BitVecVal(1, bv.W), z3.BitVecVal(0, bv.W))))
        return result("bool", obl, observe={"value": v, "raw": rv, "exc": None, "cls": "ran"}, inputs=inputs)


class _One:
    def __init__(self, pt):
        self.parameter_types = {"T": pt}


def _one(pt):
    class D:
        parameter_types = {"T": pt}
    return D


class Twin(SplineH):
    def run(self, ctx):
        r = super().run(ctx)
        r.obligations = [("reachability twin", z3.BoolVal(False))]
        return r


def make(job):
    lib = bv.install(96)
    h = {"context2": ContextTwiceH, "spline": SplineH, "poly": PolyH, "context": ContextH, "enumbool": EnumBoolH, "twin": Twin}[job["h"]](job)
    h.lib = lib
    if job["h"] == "enumbool":
        orig = h.run

        def run(ctx):
            return orig(ctx)
        h.run = run
    return h


def jobs(tier):
    nf = 4 if tier == "quick" else 6
    return [
        {"name": "spline", "h": "spline", "params": {"nfields": nf}, "split": 32, "chunk": 40, "must_reach": ["calibrated", "exc"]},
        {"name": "poly", "h": "poly", "params": {"nfields": nf}, "split": 16, "chunk": 40, "must_reach": ["calibrated"]},
        {"name": "context", "h": "context", "params": {"nfields": nf}, "split": 16, "chunk": 40, "must_reach": ["calibrated", "raw"]},
        {"name": "context-twice", "h": "context2", "params": {"nfields": min(nf, 2)}, "split": 16, "chunk": 40, "must_reach": ["calibrated/raw", "raw/calibrated"]},
        {"name": "enumbool", "h": "enumbool", "params": {"nfields": nf}, "split": 16, "chunk": 40, "must_reach": ["label", "bool", "exc"]},
    ]


def vacuity_jobs():
    return [{"name": "twin-spline", "h": "twin", "params": {"nfields": 1}, "max_paths": 30}]


# ------------------------------------------------------------------------------------------------- concrete side
def _build(i, kind):
    from space_packet_parser.xtce import calibrators as K, comparisons as C, encodings, parameter_types

    def mk(spec):
        if spec[0] == "poly":
            return K.PolynomialCalibrator([K.PolynomialCoefficient(a, e) for a, e in spec[1]])
        return K.SplineCalibrator([K.SplinePoint(float(a), float(b)) for a, b in spec[1]], order=spec[2], extrapolate=spec[3])
    if kind in ("spline", "twin"):
        cal = K.SplineCalibrator([K.SplinePoint(a, b) for a, b in i["pts"]], order=i["order"], extrapolate=i["extrap"])
        return parameter_types.IntegerParameterType("T", encodings.IntegerDataEncoding(i["w"], i["enc"], default_calibrator=cal))
    if kind == "poly":
        cal = K.PolynomialCalibrator([K.PolynomialCoefficient(a, e) for a, e in i["coeffs"]])
        return parameter_types.IntegerParameterType("T", encodings.IntegerDataEncoding(i["w"], i["enc"], default_calibrator=cal))
    if kind in ("context", "context2"):
        entries, default = CONTEXTS[i["cfg"]]
        ccs = [K.ContextCalibrator([C.Comparison(lit, p, operator=op, use_calibrated_value=cal) for p, op, lit, cal in crit], mk(CALS[ci])) for crit, ci in entries]
        return parameter_types.IntegerParameterType("T", encodings.IntegerDataEncoding(
            i["w"], i["enc"], default_calibrator=mk(CALS[default]) if default is not None else None, context_calibrators=ccs or None))
    enc = encodings.IntegerDataEncoding(i["w"], i["enc"], default_calibrator=mk(CALS[0]) if i["with_cal"] else None)
    if i["which"] < len(ENUMS):
        return parameter_types.EnumeratedParameterType("T", enc, enumeration=dict(ENUMS[i["which"]]))
    return parameter_types.BooleanParameterType("T", enc)


def concrete(req):
    import warnings
    from space_packet_parser import common, packets
    from spv.obs import enc_concrete
    from spv.obs import dec
    i = dec(req["input"])
    pt = _build(i, req["kind"])
    if req["kind"] == "context2":
        out = {"cls": "ran"}
        for n in (1, 2):
            pkt = packets.CCSDSPacket(raw_data=i[f"buf{n}"])
            pkt.raw_data.pos = 3
            c = i[f"ctxp{n}"]
            pkt["CTX"] = common.FloatParameter(float(c), common.IntParameter(c)) if (n == 2) == bool(i["order"]) else common.IntParameter(c)
            with warnings.catch_warnings():
                warnings.simplefilter("ignore")
                try:
                    v = pt.parse_value(pkt)
                    out.update({f"exc{n}": None, f"value{n}": enc_concrete(float(v) if isinstance(v, float) else int(v)), f"raw{n}": enc_concrete(v.raw_value),
                                f"class{n}": type(v).__name__})
                except Exception as e:   # noqa: BLE001
                    out[f"exc{n}"] = "raised"
        return out
    pkt = packets.CCSDSPacket(raw_data=i["buf"])
    pkt.raw_data.pos = 3
    if "ctxp" in i:
        pkt["CTX"] = common.IntParameter(i["ctxp"])
    with warnings.catch_warnings():
        warnings.simplefilter("ignore")
        try:
            v = pt.parse_value(pkt)
        except Exception as e:   # noqa: BLE001
            return {"cls": "ran", "exc": "raised" if req["kind"] in ("spline", "twin", "enumbool", "context") else type(e).__name__, "exc_type": type(e).__name__}
    if isinstance(v, float):
        val = float(v)
    elif isinstance(v, str):
        val = str(v)
    else:
        val = int(v)
    return {"cls": "ran", "exc": None, "value": enc_concrete(val), "raw": enc_concrete(v.raw_value), "class": type(v).__name__}


def _raw(i):
    buf = i["buf"]
    bits = "".join(f"{b:08b}" for b in buf)
    u = int(bits[3:3 + i["w"]], 2)
    if i["enc"] != "unsigned" and u >= 1 << (i["w"] - 1):
        u -= 1 << i["w"]
    return u


def _spline(pts, order, extrap, x):
    xs = [Fraction(a) for a, _ in pts]
    ys = [Fraction(b) for _, b in pts]
    x = Fraction(x)

    def line(a, b):
        return ys[a] + (ys[b] - ys[a]) / (xs[b] - xs[a]) * (x - xs[a])
    if xs[0] <= x <= xs[-1]:
        if order == 0:
            j = max(k for k in range(len(xs)) if xs[k] <= x)
            return ys[j]
        j = min(max(k for k in range(len(xs)) if xs[k] <= x), len(xs) - 2)
        return line(j, j + 1)
    if not extrap:
        return "CalibrationError"
    if order == 0:
        return ys[-1] if x > xs[-1] else ys[0]
    return line(len(xs) - 2, len(xs) - 1) if x > xs[-1] else line(0, 1)


def _cal(spec, x):
    if spec[0] == "poly":
        return sum(Fraction(a) * Fraction(x) ** e for a, e in spec[1])
    return _spline(spec[1], spec[2], spec[3], x)


def judge(req, got):
    """Independent oracle with exact rationals."""
    if got.get("cls") in ("WORKER-ERROR", "WORKER-DIED", "TIMEOUT"):
        return "error", str(got)[:300]
    from spv.obs import dec
    i, kind = dec(req["input"]), req["kind"]
    if kind == "context2":
        bad = []
        for n in (1, 2):
            sub = {"kind": "context", "input": dict(req["input"], buf=req["input"][f"buf{n}"], ctxp=req["input"][f"ctxp{n}"])}
            g = {"cls": "ran", "exc": got.get(f"exc{n}"), "value": got.get(f"value{n}"), "raw": got.get(f"raw{n}"), "class": got.get(f"class{n}")}
            verdict, why = judge(sub, g)
            if verdict == "reproduced":
                fl = (n == 2) == bool(i["order"])
                bad.append(f"packet {n} ({'float' if fl else 'integer'} context parameter): {why}")
        if bad:
            return "reproduced", "one parameter type object decoding two packets in a row: " + "; ".join(bad)
        return "not-reproduced", "agrees"
    r = _raw(i)
    desc = f"{kind} field {i['w']}-bit {i['enc']} raw={r}"

    def num_ok(want):
        if got.get("exc") is not None or got.get("class") != "FloatParameter" or not isinstance(got.get("value"), dict):
            return False
        g = Fraction(float.fromhex(got["value"]["f"]))
        return abs(g - want) <= Fraction(1, 10 ** 9) * (1 + abs(want)) and got.get("raw") == r
    if kind in ("spline", "twin"):
        want = _spline(i["pts"], i["order"], i["extrap"], r)
        desc += f" spline {i['pts']} order {i['order']} extrapolate {i['extrap']}"
        if want == "CalibrationError":
            return ("not-reproduced", "agrees") if got.get("exc") is not None else ("reproduced", f"{desc}: expected a calibration failure, got {got}")
        return ("not-reproduced", "agrees") if num_ok(want) else ("reproduced", f"{desc}: expected {float(want)}, got {got}")
    if kind == "poly":
        want = _cal(("poly", i["coeffs"]), r)
        return ("not-reproduced", "agrees") if num_ok(want) else ("reproduced", f"{desc} poly {i['coeffs']}: expected {float(want)}, got {got}")
    if kind == "context":
        entries, default = CONTEXTS[i["cfg"]]
        c = i["ctxp"]
        import operator
        ops = {"==": operator.eq, ">": operator.gt, "<": operator.lt, ">=": operator.ge, "<=": operator.le}
        sel = None
        for crit, ci in entries:
            if all(ops[op](c if p == "CTX" else r, int(lit)) for p, op, lit, _ in crit):
                sel = ci
                break
        if sel is None:
            sel = default
        desc += f" ctx={c} contexts #{i['cfg']}"
        if sel is None:
            ok = got.get("exc") is None and got.get("class") == "IntParameter" and got.get("value") == r and got.get("raw") == r
            return ("not-reproduced", "agrees") if ok else ("reproduced", f"{desc}: expected raw IntParameter {r}, got {got}")
        want = _cal(CALS[sel], r)
        if want == "CalibrationError":
            return ("not-reproduced", "agrees") if got.get("exc") is not None else ("reproduced", f"{desc}: calibrator {sel} (a spline that does not extrapolate) does not cover the raw value: expected a calibration failure, got {got}")
        return ("not-reproduced", "agrees") if num_ok(want) else ("reproduced", f"{desc}: expected calibrator {sel} -> {float(want)}, got {got}")
    if i["which"] < len(ENUMS):
        en = ENUMS[i["which"]]
        if r in en:
            ok = got.get("exc") is None and got.get("value") == en[r] and got.get("raw") == r and got.get("class") == "StrParameter"
            return ("not-reproduced", "agrees") if ok else ("reproduced", f"{desc} enum {en}: expected {en[r]!r}, got {got}")
        return ("not-reproduced", "agrees") if got.get("exc") is not None else ("reproduced", f"{desc} enum {en}: expected a failure, got {got}")
    ok = got.get("exc") is None and got.get("value") == int(bool(r)) and got.get("raw") == r and got.get("class") == "BoolParameter"
    return ("not-reproduced", "agrees") if ok else ("reproduced", f"{desc} boolean: expected {bool(r)} raw {r}, got {got}")


def finding_key(f, req, got):
    i = req.get("input", {})
    if req.get("kind") == "spline" and got.get("exc_type") == "ValueError":
        return "C08:spline-at-last-knot"
    return f"C08:{req.get('kind')}:{f['label']}"
