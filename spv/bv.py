"""BV back end: proxies for int / float / bytes / str carrying z3 terms, and the re-hosting of the library on them.

Python's unbounded `int` is modelled by signed bit-vectors of width W (chosen per harness); every operation that
could leave the width registers a *guard* (a no-overflow side condition) that the executor proves before the next
branch and at the end of the path; a guard that cannot be proved ends the run inconclusive ("width bound").
Floats used in arithmetic are z3 Reals (exact rationals of the doubles); rounding is outside every claim.
"""
import builtins
import io
import struct as real_struct
import warnings as real_warnings
from fractions import Fraction

import z3

from .engine import Ctx, EngineLimit

W = 128


def set_width(w):
    global W
    W = w


def _c():
    c = Ctx.cur
    if c is None:
        raise EngineLimit("proxy used outside a path context")
    return c


def bvval(v):
    return z3.BitVecVal(v, W)


def bits_of(v):
    v = builtins.int(v)
    return (v if v >= 0 else -v - 1).bit_length()


def as_bv(x):
    """(term, nb, nonneg) for anything int-like."""
    if isinstance(x, SymInt):
        return x.t, x.nb, x.nonneg
    if isinstance(x, builtins.bool):
        x = builtins.int(x)
    if isinstance(x, builtins.int):
        x = builtins.int(x)
        return z3.BitVecVal(x, W), bits_of(x), x >= 0
    raise TypeError(type(x))


def real_of(v):
    """exact z3 Real of a python number (never through decimal repr)."""
    if isinstance(v, builtins.float):
        if v != v or v in (builtins.float("inf"), -builtins.float("inf")):
            raise EngineLimit("non-finite float in real arithmetic")
    f = Fraction(v)
    return z3.RealVal(f"{f.numerator}/{f.denominator}")


def bv2real(t, nb=None):
    """signed integer value of a BV term as a Real; narrowed to nb+1 bits when a magnitude bound is known
    (bv2int of a 128-bit term is needlessly expensive for a 12-bit field)."""
    if isinstance(t, SymInt):
        t, nb = t.t, t.nb
    if nb is not None and nb + 1 < t.size():
        t = z3.Extract(nb, 0, t)
    return z3.ToReal(z3.BV2Int(t, True))


class SymInt:
    """int proxy.  t: BitVec(W) (signed);  nb: magnitude bound in bits (value in [-2^nb, 2^nb)) or None."""
    __slots_hint__ = ("t", "nb", "nonneg")

    # like the built-in it stands for, the VALUE is fixed in __new__ (from the arguments __new__ receives - a subclass's __new__ may pass
    # on different ones) and __init__ ignores its arguments
    def __new__(cls, *a, **k):
        obj = object.__new__(cls)
        obj._proxy_init(*a, **k)
        return obj

    def __init__(self, *a, **k):
        pass

    def _proxy_init(self, t=0, *a, nb=None, nonneg=False, **k):
        if isinstance(t, SymInt):
            t, nb, nonneg = t.t, t.nb, t.nonneg
        elif isinstance(t, (builtins.int, builtins.bool)):
            v = builtins.int(t)
            t, nb, nonneg = z3.BitVecVal(v, W), bits_of(v), v >= 0
        elif isinstance(t, builtins.str):
            v = builtins.int(t)        # ValueError for "3.5" / "abc" exactly like int()
            t, nb, nonneg = z3.BitVecVal(v, W), bits_of(v), v >= 0
        elif isinstance(t, builtins.float):
            v = builtins.int(t)
            t, nb, nonneg = z3.BitVecVal(v, W), bits_of(v), v >= 0
        elif isinstance(t, IntegralReal):
            t, nb, nonneg = t.b, t.nb, False
        elif isinstance(t, SymReal):
            v = _c().pick(trunc_int(t.t))
            t, nb, nonneg = z3.BitVecVal(v, W), bits_of(v), v >= 0
        elif isinstance(t, (builtins.bytes, SymBytes, SymStr)):
            raise TypeError("int() argument must be a string, a bytes-like object or a real number")
        self.t = t
        self.nb = nb
        self.nonneg = nonneg

    # ---- helpers
    def _mk(self, t, nb=None, nonneg=False):
        if nb is not None and nb > W - 2:
            nb = None
        return SymInt(t, nb=nb, nonneg=nonneg)

    @staticmethod
    def _fits(*nbs):
        return all(n is not None for n in nbs)

    # ---- arithmetic
    def _add(self, a, b, sub):
        (ta, na, pa), (tb, nb_, pb) = a, b
        r = ta - tb if sub else ta + tb
        if self._fits(na, nb_) and max(na, nb_) + 1 <= W - 2:
            return self._mk(r, max(na, nb_) + 1, (pa and pb and not sub))
        if sub:
            _c().guard(z3.And(z3.BVSubNoOverflow(ta, tb), z3.BVSubNoUnderflow(ta, tb, True)))
        else:
            _c().guard(z3.And(z3.BVAddNoOverflow(ta, tb, True), z3.BVAddNoUnderflow(ta, tb)))
        return self._mk(r)

    def __add__(self, o):
        if isinstance(o, SymReal):
            return NotImplemented
        if isinstance(o, builtins.float):
            return SymReal(bv2real(self) + real_of(o))
        try:
            return self._add(as_bv(self), as_bv(o), False)
        except TypeError:
            return NotImplemented

    def __radd__(self, o):
        if isinstance(o, builtins.float):
            return SymReal(real_of(o) + bv2real(self))
        try:
            return self._add(as_bv(o), as_bv(self), False)
        except TypeError:
            return NotImplemented

    def __sub__(self, o):
        if isinstance(o, SymReal):
            return NotImplemented
        if isinstance(o, builtins.float):
            return SymReal(bv2real(self) - real_of(o))
        try:
            return self._add(as_bv(self), as_bv(o), True)
        except TypeError:
            return NotImplemented

    def __rsub__(self, o):
        if isinstance(o, builtins.float):
            return SymReal(real_of(o) - bv2real(self))
        try:
            return self._add(as_bv(o), as_bv(self), True)
        except TypeError:
            return NotImplemented

    def _mul(self, a, b):
        (ta, na, pa), (tb, nb_, pb) = a, b
        r = ta * tb
        if self._fits(na, nb_) and na + nb_ <= W - 2:
            return self._mk(r, na + nb_, pa and pb)
        # constant operand: range guard instead of a multiplier-overflow circuit
        for (tc, tv) in ((ta, tb), (tb, ta)):
            if z3.is_bv_value(tc):
                c = tc.as_signed_long()
                if c == 0:
                    return self._mk(z3.BitVecVal(0, W), 0, True)
                lim = (1 << (W - 2)) // abs(c)
                _c().guard(z3.And(tv >= -lim, tv <= lim))
                return self._mk(r)
        _c().guard(z3.And(z3.BVMulNoOverflow(ta, tb, True), z3.BVMulNoUnderflow(ta, tb)))
        return self._mk(r)

    def __mul__(self, o):
        if isinstance(o, SymReal):
            return NotImplemented
        if isinstance(o, builtins.float):
            return SymReal(bv2real(self) * real_of(o))
        try:
            return self._mul(as_bv(self), as_bv(o))
        except TypeError:
            return NotImplemented

    def __rmul__(self, o):
        if isinstance(o, builtins.float):
            return SymReal(real_of(o) * bv2real(self))
        try:
            return self._mul(as_bv(o), as_bv(self))
        except TypeError:
            return NotImplemented

    def __truediv__(self, o):
        if isinstance(o, SymReal):
            return NotImplemented
        return SymReal(bv2real(self)) / o

    def __rtruediv__(self, o):
        return SymReal(o if not isinstance(o, SymInt) else bv2real(o)) / SymReal(bv2real(self))

    def _bitop(self, o, f, kind, swap=False):
        if isinstance(o, (builtins.float, SymReal)):
            return NotImplemented
        try:
            tb, nb_, pb = as_bv(o)
        except TypeError:
            return NotImplemented
        ta, na, pa = self.t, self.nb, self.nonneg
        r = f(tb, ta) if swap else f(ta, tb)
        if kind == "and":
            if pa and pb:
                nb = min(x for x in (na, nb_) if x is not None) if (na is not None or nb_ is not None) else None
            elif pb and nb_ is not None:
                nb = nb_
            elif pa and na is not None:
                nb = na
            else:
                nb = max(na, nb_) if self._fits(na, nb_) else None
            return self._mk(r, nb, pa or pb)
        nb = max(na, nb_) if self._fits(na, nb_) else None
        return self._mk(r, nb, pa and pb)

    __and__ = lambda s, o: s._bitop(o, lambda a, b: a & b, "and")
    __rand__ = lambda s, o: s._bitop(o, lambda a, b: a & b, "and", True)
    __or__ = lambda s, o: s._bitop(o, lambda a, b: a | b, "or")
    __ror__ = lambda s, o: s._bitop(o, lambda a, b: a | b, "or", True)
    __xor__ = lambda s, o: s._bitop(o, lambda a, b: a ^ b, "or")
    __rxor__ = lambda s, o: s._bitop(o, lambda a, b: a ^ b, "or", True)

    @staticmethod
    def _shift(a, b, left):
        (ta, na, pa), (tb, nb_, pb) = a, b
        c = _c()
        if not pb:
            if c.fork(tb < 0):
                raise ValueError("negative shift count")
        if left:
            if z3.is_bv_value(tb):
                k = tb.as_signed_long()
                if na is not None and na + k <= W - 2:
                    return SymInt(ta << tb, nb=na + k, nonneg=pa)
            c.guard(z3.And(z3.ULT(tb, W - 1), ((ta << tb) >> tb) == ta))
            return SymInt(ta << tb, nb=None, nonneg=pa)
        # right shift (arithmetic, = floor division by 2^b for any b >= 0); BV ashr saturates correctly for b >= W
        return SymInt(ta >> tb, nb=na, nonneg=pa)

    def __lshift__(self, o):
        try:
            return self._shift(as_bv(self), as_bv(o), True)
        except TypeError:
            return NotImplemented

    def __rlshift__(self, o):
        try:
            return self._shift(as_bv(o), as_bv(self), True)
        except TypeError:
            return NotImplemented

    def __rshift__(self, o):
        try:
            return self._shift(as_bv(self), as_bv(o), False)
        except TypeError:
            return NotImplemented

    def __rrshift__(self, o):
        try:
            return self._shift(as_bv(o), as_bv(self), False)
        except TypeError:
            return NotImplemented

    @staticmethod
    def _divmod(a, b):
        (ta, na, pa), (tb, nb_, pb) = a, b
        c = _c()
        if not z3.is_bv_value(tb) or tb.as_signed_long() == 0:
            if c.fork(tb == 0):
                raise ZeroDivisionError("integer division or modulo by zero")
        q = ta / tb            # signed division truncating toward zero
        r = z3.SRem(ta, tb)
        adj = z3.And(r != 0, (r < 0) != (tb < 0))
        return z3.If(adj, q - 1, q), z3.If(adj, r + tb, r)

    def __floordiv__(self, o):
        if isinstance(o, (builtins.float, SymReal)):
            raise EngineLimit("float floor division")
        try:
            a, b = as_bv(self), as_bv(o)
        except TypeError:
            return NotImplemented
        q, _ = self._divmod(a, b)
        return SymInt(q, nb=a[1], nonneg=a[2] and b[2])

    def __rfloordiv__(self, o):
        try:
            a, b = as_bv(o), as_bv(self)
        except TypeError:
            return NotImplemented
        q, _ = self._divmod(a, b)
        return SymInt(q, nb=a[1], nonneg=a[2] and b[2])

    def __mod__(self, o):
        if isinstance(o, (builtins.float, SymReal)):
            raise EngineLimit("float modulo")
        try:
            a, b = as_bv(self), as_bv(o)
        except TypeError:
            return NotImplemented
        _, r = self._divmod(a, b)
        return SymInt(r, nb=b[1], nonneg=b[2])

    def __rmod__(self, o):
        try:
            a, b = as_bv(o), as_bv(self)
        except TypeError:
            return NotImplemented
        _, r = self._divmod(a, b)
        return SymInt(r, nb=b[1], nonneg=b[2])

    def __pow__(self, n, mod=None):
        if mod is not None or not isinstance(n, builtins.int):
            raise EngineLimit("pow with symbolic/modular exponent")
        if n == 0:
            return 1
        if n == 1:
            return SymInt(self)
        if n < 0:
            raise EngineLimit("negative power of symbolic int")
        # int ** n is the same number as a Real; kept as a Real term so that no BV multiplier is built
        # (only PolynomialCalibrator.calibrate does this, and multiplies the result by a float coefficient).
        x = bv2real(self)
        r = x
        for _ in range(n - 1):
            r = r * x
        return SymReal(r, integral=True)

    def __rpow__(self, base):
        c = _c()
        if isinstance(base, builtins.int) and not isinstance(base, builtins.bool) and base == 2:
            if not self.nonneg and c.fork(self.t < 0):
                return 2.0 ** c.pick(self.t)        # python: int ** negative int -> float
            c.guard(z3.ULT(self.t, W - 2))
            return SymInt(z3.BitVecVal(1, W) << self.t, nb=None, nonneg=True)
        if isinstance(base, (builtins.int, builtins.float)):
            return base ** c.pick(self.t)           # small exponents only (MIL-1750A: 256 values)
        return NotImplemented

    def __neg__(self):
        return SymInt(-self.t, nb=(self.nb + 1 if self.nb is not None else None))

    def __pos__(self):
        return SymInt(self)

    def __abs__(self):
        return SymInt(z3.If(self.t < 0, -self.t, self.t), nb=self.nb, nonneg=True)

    def __invert__(self):
        return SymInt(~self.t, nb=self.nb)

    # ---- comparisons: fork eagerly and return real bools (the library tests results with `is True`)
    def _cmp(self, o, f):
        if isinstance(o, IntegralReal):
            return NotImplemented          # CPython: int.__op__(float) -> NotImplemented
        if isinstance(o, SymReal):
            return NotImplemented
        if isinstance(o, builtins.float):
            # a plain python float operand reaches this method only as the *reflected* call made by C float's
            # rich comparison (`3.5 > x`): the mathematical comparison.  (Every float the library itself produces
            # is a FloatParameter, i.e. a SymReal proxy, handled above.)
            return _c().fork(f(bv2real(self), real_of(o)))
        try:
            tb, _, _ = as_bv(o)
        except TypeError:
            return NotImplemented
        return _c().fork(f(self.t, tb))

    __eq__ = lambda s, o: s._cmp(o, lambda a, b: a == b)
    __ne__ = lambda s, o: s._cmp(o, lambda a, b: a != b)
    __lt__ = lambda s, o: s._cmp(o, lambda a, b: a < b)
    __le__ = lambda s, o: s._cmp(o, lambda a, b: a <= b)
    __gt__ = lambda s, o: s._cmp(o, lambda a, b: a > b)
    __ge__ = lambda s, o: s._cmp(o, lambda a, b: a >= b)

    def __hash__(self):
        # a symbolic integer used as a dict / set key (memo tables): first fork on "equal to a key hashed earlier on this path" - the
        # collision histories are the interesting ones - and only then fall back to enumerating concrete values
        c = _c()
        t = z3.simplify(self.t)
        if z3.is_bv_value(t):
            return hash(t.as_signed_long())
        memo = c.__dict__.setdefault("_picked", {})
        hit = memo.get(t.get_id())
        if hit is not None:
            return hash(hit[1])
        seen = c.__dict__.setdefault("hashed", [])
        for pv in seen:
            if c.fork(t == pv):
                memo[t.get_id()] = (t, pv)
                return hash(pv)
        v = c.pick(t)
        if v not in seen:
            seen.append(v)
        return hash(v)

    def __bool__(self):
        return _c().fork(self.t != 0)

    def __index__(self):
        return _c().pick(self.t)

    __int__ = __index__

    def __float__(self):
        raise EngineLimit("builtin float() of a symbolic int (module without FloatShim?)")

    def _tag(self):
        # concrete terms print as the number; symbolic ones as a tag that identifies the TERM (used by recorders to tell
        # which object a formatted cell came from); message texts are never compared
        t = z3.simplify(self.t)
        if z3.is_bv_value(t):
            return builtins.str(t.as_signed_long())
        return f"<symint#{self.t.get_id()}>"

    def __format__(self, spec):
        return self._tag()

    def __repr__(self):
        return self._tag()

    __str__ = __repr__

    def is_integer(self):
        return True

    def to_bytes(self, length=1, byteorder="big", *, signed=False):
        if isinstance(length, (builtins.float, SymReal)):
            raise TypeError("'float' object cannot be interpreted as an integer")
        length = length.__index__()
        c = _c()
        if signed:
            raise EngineLimit("signed to_bytes")
        fits = self.nonneg and self.nb is not None and self.nb <= 8 * length
        if not fits:
            if length * 8 >= W - 1:
                bad = self.t < 0
            else:
                bad = z3.Or(self.t < 0, self.t >= z3.BitVecVal(1 << (8 * length), W))
            if c.fork(bad):
                raise OverflowError("int too big to convert")
        bs = [z3.simplify(z3.Extract(8 * i + 7, 8 * i, self.t)) for i in range(length)]   # little-endian order
        if byteorder == "big":
            bs.reverse()
        return SymBytes(bs)

    def bit_length(self):
        raise EngineLimit("bit_length of symbolic int")


def trunc_int(r):
    """int(float) truncates toward zero."""
    return z3.If(r >= 0, z3.ToInt(r), -z3.ToInt(-r))


class SymReal:
    """float proxy over the reals."""

    def __new__(cls, *a, **k):
        obj = object.__new__(cls)
        obj._proxy_init(*a, **k)
        return obj

    def __init__(self, *a, **k):
        pass

    def _proxy_init(self, t=0.0, *a, integral=False, **k):
        if isinstance(t, IntegralReal):
            t = t.t
            integral = True
        elif isinstance(t, SymReal):
            t, integral = t.t, t.integral
        elif isinstance(t, SymInt):
            t = bv2real(t)
            integral = True
        elif isinstance(t, builtins.bool):
            t = real_of(builtins.int(t))
        elif isinstance(t, (builtins.int, builtins.float)):
            integral = builtins.float(t).is_integer()
            t = real_of(t)
        elif isinstance(t, builtins.str):
            v = builtins.float(t)          # ValueError like float("abc")
            integral = v.is_integer()
            t = real_of(v)
        elif isinstance(t, (builtins.bytes, SymBytes, SymStr)):
            raise TypeError("float() argument must be a string or a real number")
        self.t = t
        self.integral = integral

    @staticmethod
    def r(o):
        if isinstance(o, SymReal):
            return o.t
        if isinstance(o, SymInt):
            return bv2real(o)
        if isinstance(o, (builtins.int, builtins.float)):
            return real_of(o)
        raise TypeError(type(o))

    def _b(self, o, f):
        try:
            return SymReal(f(self.t, SymReal.r(o)))
        except TypeError:
            return NotImplemented

    def _rb(self, o, f):
        try:
            return SymReal(f(SymReal.r(o), self.t))
        except TypeError:
            return NotImplemented

    __add__ = lambda s, o: s._b(o, lambda a, b: a + b)
    __radd__ = lambda s, o: s._rb(o, lambda a, b: a + b)
    __sub__ = lambda s, o: s._b(o, lambda a, b: a - b)
    __rsub__ = lambda s, o: s._rb(o, lambda a, b: a - b)
    __mul__ = lambda s, o: s._b(o, lambda a, b: a * b)
    __rmul__ = lambda s, o: s._rb(o, lambda a, b: a * b)

    def __truediv__(self, o):
        try:
            d = SymReal.r(o)
        except TypeError:
            return NotImplemented
        if _c().fork(d == 0):
            raise ZeroDivisionError("float division by zero")
        return SymReal(self.t / d)

    def __rtruediv__(self, o):
        try:
            n = SymReal.r(o)
        except TypeError:
            return NotImplemented
        if _c().fork(self.t == 0):
            raise ZeroDivisionError("float division by zero")
        return SymReal(n / self.t)

    def __pow__(self, n, mod=None):
        if isinstance(n, builtins.float) and n.is_integer():
            n = builtins.int(n)
        if not isinstance(n, builtins.int) or n < 0 or n > 6:
            raise EngineLimit("real power")
        r = z3.RealVal(1)
        for _ in range(n):
            r = r * self.t
        return SymReal(r)

    def __neg__(self):
        return SymReal(-self.t, integral=self.integral)

    def __pos__(self):
        return self

    def __abs__(self):
        return SymReal(z3.If(self.t < 0, -self.t, self.t), integral=self.integral)

    def _cmp(self, o, f):
        try:
            return _c().fork(f(self.t, SymReal.r(o)))
        except TypeError:
            return NotImplemented

    __eq__ = lambda s, o: s._cmp(o, lambda a, b: a == b)
    __ne__ = lambda s, o: s._cmp(o, lambda a, b: a != b)
    __lt__ = lambda s, o: s._cmp(o, lambda a, b: a < b)
    __le__ = lambda s, o: s._cmp(o, lambda a, b: a <= b)
    __gt__ = lambda s, o: s._cmp(o, lambda a, b: a > b)
    __ge__ = lambda s, o: s._cmp(o, lambda a, b: a >= b)
    __hash__ = None

    def __bool__(self):
        return _c().fork(self.t != 0)

    def is_integer(self):
        if self.integral:
            return True
        return _c().fork(z3.IsInt(self.t))

    def __float__(self):
        raise EngineLimit("builtin float() of a symbolic real")

    def __int__(self):
        return _c().pick(trunc_int(self.t))

    def __format__(self, spec):
        return "<symreal>"

    def __repr__(self):
        return "<symreal>"

    __str__ = __repr__


class IntegralReal(SymReal):
    """float(x) of a symbolic int: an integer-valued float that stays a BV term under integral arithmetic.
    Exact in binary64 while |v| < 2**53, which is guarded."""

    def _proxy_init(self, b=0, *a, nb=None, **k):
        if isinstance(b, SymInt):
            b, nb = b.t, b.nb
        self.b = b
        self.nb = nb
        self._t = None
        self.integral = True
        if nb is None or nb > 53:
            lim = z3.BitVecVal(1 << 53, W)
            _c().guard(z3.And(b > -lim, b < lim))

    @property
    def t(self):
        if self._t is None:
            self._t = bv2real(self.b, self.nb)
        return self._t

    @t.setter
    def t(self, v):
        self._t = v

    def _as_int(self):
        return SymInt(self.b, nb=self.nb)

    @staticmethod
    def _integral_operand(o):
        if isinstance(o, IntegralReal):
            return o._as_int()
        if isinstance(o, SymInt):
            return o
        if isinstance(o, builtins.bool):
            return builtins.int(o)
        if isinstance(o, builtins.int):
            return o
        if isinstance(o, builtins.float) and o.is_integer():
            return builtins.int(o)
        return None

    def _ib(self, o, op, fallback):
        io = self._integral_operand(o)
        if io is None:
            return fallback(o)
        r = op(self._as_int(), io)
        if r is NotImplemented:
            return fallback(o)
        return IntegralReal(r)

    __add__ = lambda s, o: s._ib(o, lambda a, b: a + b, lambda o: SymReal.__add__(s, o))
    __radd__ = lambda s, o: s._ib(o, lambda a, b: b + a, lambda o: SymReal.__radd__(s, o))
    __sub__ = lambda s, o: s._ib(o, lambda a, b: a - b, lambda o: SymReal.__sub__(s, o))
    __rsub__ = lambda s, o: s._ib(o, lambda a, b: b - a, lambda o: SymReal.__rsub__(s, o))
    __mul__ = lambda s, o: s._ib(o, lambda a, b: a * b, lambda o: SymReal.__mul__(s, o))
    __rmul__ = lambda s, o: s._ib(o, lambda a, b: b * a, lambda o: SymReal.__rmul__(s, o))

    def _cmp(self, o, f):
        io = self._integral_operand(o)
        if io is not None:
            tb, _, _ = as_bv(io)
            return _c().fork(f(self.b, tb))
        return SymReal._cmp(self, o, f)

    __eq__ = lambda s, o: s._cmp(o, lambda a, b: a == b)
    __ne__ = lambda s, o: s._cmp(o, lambda a, b: a != b)
    __lt__ = lambda s, o: s._cmp(o, lambda a, b: a < b)
    __le__ = lambda s, o: s._cmp(o, lambda a, b: a <= b)
    __gt__ = lambda s, o: s._cmp(o, lambda a, b: a > b)
    __ge__ = lambda s, o: s._cmp(o, lambda a, b: a >= b)
    __hash__ = None

    def __bool__(self):
        return _c().fork(self.b != 0)

    def __neg__(self):
        return IntegralReal(-self._as_int())

    def is_integer(self):
        return True

    def __int__(self):
        return _c().pick(self.b)


def byte_term(x):
    """8-bit BV term of a bytes element (python int or 8-bit term)."""
    if isinstance(x, builtins.int):
        return z3.BitVecVal(x, 8)
    if isinstance(x, SymInt):
        return z3.simplify(z3.Extract(7, 0, x.t))
    return x


class SymBytes:
    """bytes proxy: concrete length, symbolic content (items are python ints or 8-bit BV terms)."""

    def __new__(cls, *a, **k):
        obj = object.__new__(cls)
        obj._proxy_init(*a, **k)
        return obj

    def __init__(self, *a, **k):
        pass

    def _proxy_init(self, items=(), *a, **k):
        if isinstance(items, SymBytes):
            items = items.items
        elif isinstance(items, builtins.str):
            raise TypeError("string argument without an encoding")
        elif isinstance(items, (builtins.int, SymInt)):
            raise EngineLimit("bytes(n)")
        self.items = [x if isinstance(x, builtins.int) else byte_term(x) for x in items]

    def __len__(self):
        return builtins.len(self.items)

    def __bool__(self):
        return builtins.len(self.items) != 0

    def __iter__(self):
        for x in self.items:
            yield x if isinstance(x, builtins.int) else SymInt(z3.ZeroExt(W - 8, x), nb=8, nonneg=True)

    @staticmethod
    def _ix(v):
        if v is None:
            return None
        if isinstance(v, SymInt):
            return v.__index__()
        if isinstance(v, SymReal) or isinstance(v, builtins.float):
            raise TypeError("slice indices must be integers or None or have an __index__ method")
        return v.__index__()

    def __getitem__(self, k):
        if isinstance(k, slice):
            if k.step is not None:
                return SymBytes(self.items[self._ix(k.start):self._ix(k.stop):self._ix(k.step)])
            return SymBytes(self.items[self._ix(k.start):self._ix(k.stop)])
        x = self.items[self._ix(k)]
        return x if isinstance(x, builtins.int) else SymInt(z3.ZeroExt(W - 8, x), nb=8, nonneg=True)

    def __add__(self, o):
        if isinstance(o, SymBytes):
            return SymBytes(self.items + o.items)
        if isinstance(o, (builtins.bytes, builtins.bytearray)):
            return SymBytes(self.items + list(o))
        return NotImplemented

    def __radd__(self, o):
        if isinstance(o, (builtins.bytes, builtins.bytearray)):
            return SymBytes(list(o) + self.items)
        return NotImplemented

    def word(self, width=None):
        """big-endian value of the bytes as a BV term of `width` bits (default W)."""
        width = width or W
        n = builtins.len(self.items)
        if n == 0:
            return z3.BitVecVal(0, width)
        if 8 * n > width - 1 and width == W:
            raise EngineLimit(f"BV width {W} too small for a {n}-byte integer")
        parts = [byte_term(x) for x in self.items]
        cat = parts[0] if n == 1 else z3.Concat(*parts)
        if 8 * n < width:
            cat = z3.ZeroExt(width - 8 * n, cat)
        return z3.simplify(cat)

    def index(self, sub, *a):
        if a:
            raise EngineLimit("bytes.index with bounds")
        sub = list(sub.items if isinstance(sub, SymBytes) else sub)
        k = builtins.len(sub)
        c = _c()
        for i in range(0, builtins.len(self.items) - k + 1):
            m = z3.And([byte_term(self.items[i + j]) == byte_term(sub[j]) for j in range(k)] + [z3.BoolVal(True)])
            if c.fork(m):
                return i
        raise ValueError("subsection not found")

    def decode(self, encoding="utf-8", errors="strict"):
        c = _c()
        c.notes.setdefault("decode_calls", []).append((encoding, list(self.items)))
        return SymStr(("decode", encoding, list(self.items)))

    def hex(self):
        return "<symbytes.hex>"

    def _eq_term(self, o):
        oi = o.items if isinstance(o, SymBytes) else list(o)
        if builtins.len(oi) != builtins.len(self.items):
            return z3.BoolVal(False)
        return z3.And([byte_term(a) == byte_term(b) for a, b in zip(self.items, oi)] + [z3.BoolVal(True)])

    def __eq__(self, o):
        if isinstance(o, (SymBytes, builtins.bytes)):
            return _c().fork(self._eq_term(o))
        return NotImplemented

    def __ne__(self, o):
        if isinstance(o, (SymBytes, builtins.bytes)):
            return not _c().fork(self._eq_term(o))
        return NotImplemented

    def __hash__(self):
        # symbolic bytes as a dict / set key: first fork on "equal to a key hashed earlier on this path" (same length), then enumerate
        c = _c()
        terms = [byte_term(x) for x in self.items]
        if all(z3.is_bv_value(z3.simplify(t)) for t in terms):
            return hash(builtins.bytes(z3.simplify(t).as_long() for t in terms))
        seen = c.__dict__.setdefault("hashed_bytes", [])
        for pv in seen:
            if builtins.len(pv) == builtins.len(terms) and c.fork(z3.And([t == v for t, v in zip(terms, pv)] + [z3.BoolVal(True)])):
                return hash(pv)
        if builtins.len(terms) > 4:
            raise EngineLimit("hash of more than 4 symbolic bytes")
        pv = builtins.bytes(c.pick(z3.ZeroExt(W - 8, t)) for t in terms)
        seen.append(pv)
        return hash(pv)

    def __repr__(self):
        return f"<symbytes {builtins.len(self.items)}>"

    __str__ = __repr__

    def __format__(self, spec):
        return repr(self)


class SymStr:
    """str proxy: either a concrete python str or the uninterpreted decode(codec, bytes)."""

    def __new__(cls, *a, **k):
        obj = object.__new__(cls)
        obj._proxy_init(*a, **k)
        return obj

    def __init__(self, *a, **k):
        pass

    def _proxy_init(self, v="", *a, **k):
        if isinstance(v, SymStr):
            v = v.v
        elif isinstance(v, (SymBytes, builtins.bytes)) and not a:
            v = builtins.str(v)
        self.v = v

    def is_concrete(self):
        return isinstance(self.v, builtins.str)

    def __eq__(self, o):
        if isinstance(o, SymStr):
            o = o.v
        if isinstance(self.v, builtins.str) and isinstance(o, builtins.str):
            return self.v == o
        raise EngineLimit("comparison of uninterpreted decoded text")

    def __ne__(self, o):
        return not self.__eq__(o)

    def _order(self, o, fn):
        if isinstance(o, SymStr):
            o = o.v
        if not isinstance(o, (builtins.str, tuple)):
            return NotImplemented            # str.__lt__(int) -> NotImplemented, like the built-in
        if isinstance(self.v, builtins.str) and isinstance(o, builtins.str):
            return fn(self.v, o)
        raise EngineLimit("ordering of uninterpreted decoded text")

    def __lt__(self, o):
        return self._order(o, lambda a, b: a < b)

    def __le__(self, o):
        return self._order(o, lambda a, b: a <= b)

    def __gt__(self, o):
        return self._order(o, lambda a, b: a > b)

    def __ge__(self, o):
        return self._order(o, lambda a, b: a >= b)

    def __hash__(self):
        if isinstance(self.v, builtins.str):
            return hash(self.v)
        raise EngineLimit("hash of uninterpreted decoded text")

    def __bool__(self):
        if isinstance(self.v, builtins.str):
            return bool(self.v)
        raise EngineLimit("truth value of uninterpreted decoded text")

    def __len__(self):
        if isinstance(self.v, builtins.str):
            return builtins.len(self.v)
        raise EngineLimit("len of uninterpreted decoded text")

    def __repr__(self):
        return f"<symstr {self.v!r}>" if isinstance(self.v, builtins.str) else "<symstr decode>"

    __str__ = __repr__

    def __format__(self, spec):
        return repr(self)


# ------------------------------------------------------------------------------------------------ shims
class _Meta(type):
    def __instancecheck__(cls, x):
        return isinstance(x, cls._accept)

    def __subclasscheck__(cls, sub):
        return any(issubclass(sub, a) for a in cls._accept)


class IntShim(metaclass=_Meta):
    _accept = (builtins.int, SymInt)

    def __new__(cls, x=0, *a):
        if isinstance(x, IntegralReal):
            return x._as_int()
        if isinstance(x, SymInt):
            return SymInt(x)
        if isinstance(x, SymReal):
            if x.integral:
                raise EngineLimit("int() of an integral real term that is not BV-backed")
            return _c().pick(trunc_int(x.t))      # real -> int only by concretising (never int2bv)
        if isinstance(x, (SymBytes, SymStr)):
            raise EngineLimit("int() of symbolic text")
        return builtins.int(x, *a)

    @staticmethod
    def from_bytes(data, byteorder="big", *, signed=False):
        if isinstance(data, SymBytes):
            if signed:
                raise EngineLimit("signed from_bytes")
            items = data.items if byteorder == "big" else list(reversed(data.items))
            n = builtins.len(items)
            return SymInt(SymBytes(items).word(), nb=8 * n, nonneg=True)
        return builtins.int.from_bytes(data, byteorder, signed=signed)

    @staticmethod
    def to_bytes(x, length=1, byteorder="big", *, signed=False):
        if isinstance(x, SymInt):
            return x.to_bytes(length, byteorder, signed=signed)
        if isinstance(length, SymInt):
            length = length.__index__()
        if isinstance(length, SymReal):
            raise TypeError("'float' object cannot be interpreted as an integer")
        return builtins.int.to_bytes(x, length, byteorder, signed=signed)


class FloatShim(metaclass=_Meta):
    _accept = (builtins.float, SymReal)

    def __new__(cls, x=0.0):
        if isinstance(x, SymInt):
            return IntegralReal(x)
        if isinstance(x, SymReal):
            return x
        if isinstance(x, (SymBytes, SymStr)):
            raise EngineLimit("float() of symbolic text")
        return builtins.float(x)

    fromhex = builtins.float.fromhex


class BytesShim(metaclass=_Meta):
    _accept = (builtins.bytes, SymBytes)

    def __new__(cls, x=b"", *a, **k):
        if isinstance(x, SymBytes):
            return SymBytes(x.items)
        return builtins.bytes(x, *a, **k)

    fromhex = builtins.bytes.fromhex


UNPACK = {}


def unpack_fn(fmt, nbytes):
    key = (fmt, nbytes)
    if key not in UNPACK:
        name = "unpack_" + fmt.replace("<", "LE_").replace(">", "BE_").replace("!", "NET_")
        UNPACK[key] = z3.Function(name, z3.BitVecSort(8 * nbytes), z3.RealSort())
    return UNPACK[key]


INT_CODES = {"b": (1, True), "B": (1, False), "h": (2, True), "H": (2, False), "i": (4, True), "I": (4, False), "l": (4, True), "L": (4, False),
             "q": (8, True), "Q": (8, False)}


def parse_struct_format(fmt):
    """-> (little_endian, [(code, size)]) for formats with an explicit byte order and integer / float codes (repeat counts expanded)"""
    if not fmt or fmt[0] not in "<>!=":
        raise EngineLimit(f"struct format without explicit byte order: {fmt!r}")
    little = fmt[0] == "<"
    out, num = [], ""
    for ch in fmt[1:]:
        if ch.isdigit():
            num += ch
            continue
        if ch == "x":
            out += [("x", 1)] * builtins.int(num or 1)
        elif ch in INT_CODES:
            out += [(ch, INT_CODES[ch][0])] * builtins.int(num or 1)
        elif ch in "efd":
            out += [(ch, {"e": 2, "f": 4, "d": 8}[ch])] * builtins.int(num or 1)
        elif ch.isspace():
            continue
        else:
            raise EngineLimit(f"struct format code {ch!r}")
        num = ""
    return little, out


class StructShim:
    """struct for symbolic bytes: integer codes are modelled exactly (two's complement, byte order); float codes are an arbitrary
    *function* of (format, bytes)."""
    error = real_struct.error
    calcsize = staticmethod(real_struct.calcsize)
    pack = staticmethod(real_struct.pack)

    @staticmethod
    def _decode(fmt, items):
        little, codes = parse_struct_format(fmt)
        out, pos = [], 0
        for code, size in codes:
            chunk = items[pos:pos + size]
            pos += size
            if code == "x":
                continue
            if code in INT_CODES:
                signed = INT_CODES[code][1]
                order = list(reversed(chunk)) if little else chunk
                word = SymBytes(order).word(8 * size)
                t = (z3.SignExt if signed else z3.ZeroExt)(W - 8 * size, word)
                out.append(SymInt(t, nb=8 * size, nonneg=not signed))
            else:
                one = ("<" if little else ">") + code
                word = SymBytes(chunk).word(8 * size)
                _c().notes.setdefault("unpack_calls", []).append((one, word))
                out.append(SymReal(unpack_fn(one, size)(word)))
        return tuple(out)

    @staticmethod
    def unpack(fmt, data):
        if isinstance(data, SymBytes):
            if real_struct.calcsize(fmt) != builtins.len(data):
                raise real_struct.error(f"unpack requires a buffer of {real_struct.calcsize(fmt)} bytes")
            return StructShim._decode(fmt, data.items)
        return real_struct.unpack(fmt, data)

    @staticmethod
    def unpack_from(fmt, buffer, offset=0):
        if isinstance(buffer, SymBytes):
            offset = offset.__index__()
            size = real_struct.calcsize(fmt)
            if offset < 0:
                offset += builtins.len(buffer)
            if offset < 0 or builtins.len(buffer) - offset < size:
                raise real_struct.error(f"unpack_from requires a buffer of at least {size + offset} bytes")
            return StructShim._decode(fmt, buffer.items[offset:offset + size])
        return real_struct.unpack_from(fmt, buffer, offset)


class StructObj:
    """stand-in for a compiled struct.Struct (also for instances the library created at import time)"""
    def __init__(self, fmt, shim=None):
        self.format = fmt if isinstance(fmt, builtins.str) else fmt.decode()
        self.size = real_struct.calcsize(self.format)
        self._shim = shim or StructShim

    def unpack(self, data):
        return self._shim.unpack(self.format, data)

    def unpack_from(self, buffer, offset=0):
        return self._shim.unpack_from(self.format, buffer, offset)

    def pack(self, *a):
        return real_struct.pack(self.format, *a)

    def iter_unpack(self, data):
        raise EngineLimit("Struct.iter_unpack")


StructShim.Struct = StructObj


def rehost_struct_objects(mod, setter, shim=None):
    """replace struct.Struct instances held in a library module's globals by shim objects"""
    for name, val in list(vars(mod).items()):
        if isinstance(val, real_struct.Struct):
            setter(mod, name, StructObj(val.format, shim))


class WarnShim:
    """`warnings` stand-in for library modules: records instead of emitting (messages contain proxies)."""
    def __getattr__(self, name):
        return getattr(real_warnings, name)

    @staticmethod
    def warn(message, category=UserWarning, stacklevel=1, **k):
        c = Ctx.cur
        if c is not None:
            c.warnings.append((getattr(category, "__name__", "UserWarning"), builtins.str(message)[:60]))
        else:
            real_warnings.warn(message, category, stacklevel=stacklevel + 1)


def is_proxy(x):
    return isinstance(x, (SymInt, SymReal, SymBytes, SymStr))


class SymDict(dict):
    """dict[key] with a symbolic key = first-equal-key lookup, KeyError otherwise."""

    def __getitem__(self, key):
        if not is_proxy(key):
            return dict.__getitem__(self, key)
        for k, v in self.items():
            r = key.__eq__(k)
            if r is NotImplemented:
                r = False if not hasattr(k, "__eq__") else (k == key)
            if r is True:
                return v
        raise KeyError(key)

    def __contains__(self, key):
        try:
            self[key]
            return True
        except KeyError:
            return False


# ------------------------------------------------------------------------------------------------ re-hosting
_saved = []
_SENTINEL = object()


def _set(obj, attr, value):
    if isinstance(obj, type):
        old = obj.__dict__.get(attr, _SENTINEL)
    else:
        old = obj.__dict__.get(attr, _SENTINEL) if hasattr(obj, "__dict__") else getattr(obj, attr, _SENTINEL)
    _saved.append((obj, attr, old))
    setattr(obj, attr, value)


def uninstall():
    while _saved:
        obj, attr, old = _saved.pop()
        if old is _SENTINEL:
            try:
                delattr(obj, attr)
            except AttributeError:
                pass
        else:
            setattr(obj, attr, old)


def rebind_super(newc, real):
    """methods copied from `real` that use zero-argument super() (or __class__) carry a closure cell holding the ORIGINAL class; give the
    copies in `newc` a cell holding `newc`, so that super() resolves along the re-hosted class's own MRO"""
    import types

    def fix(f):
        if not isinstance(f, types.FunctionType) or not f.__closure__ or "__class__" not in f.__code__.co_freevars:
            return f
        cells = tuple(types.CellType(newc) if name == "__class__" and cell.cell_contents is real else cell
                      for name, cell in zip(f.__code__.co_freevars, f.__closure__))
        g = types.FunctionType(f.__code__, f.__globals__, f.__name__, f.__defaults__, cells)
        g.__kwdefaults__, g.__dict__, g.__qualname__, g.__doc__ = f.__kwdefaults__, dict(f.__dict__), f.__qualname__, f.__doc__
        g.__annotations__ = dict(getattr(f, "__annotations__", {}))
        return g
    for k, v in list(newc.__dict__.items()):
        if isinstance(v, types.FunctionType):
            w = fix(v)
        elif isinstance(v, (staticmethod, classmethod)):
            w = type(v)(fix(v.__func__))
            if w.__func__ is v.__func__:
                continue
        elif isinstance(v, property):
            w = property(fix(v.fget) if v.fget else None, fix(v.fset) if v.fset else None, fix(v.fdel) if v.fdel else None, v.__doc__)
            if (w.fget, w.fset, w.fdel) == (v.fget, v.fset, v.fdel):
                continue
        else:
            continue
        if w is not v:
            setattr(newc, k, w)
    return newc


def rehost_class(real, base, name=None):
    ns = {k: v for k, v in real.__dict__.items() if k not in ("__dict__", "__weakref__")}
    return rebind_super(type(name or real.__name__, (base,), ns), real)


class Lib:
    """handles to the (re-hosted) library after install()"""


def install(width=128):
    """Re-host the library on the BV proxies (check-process only; nothing under /repo is edited)."""
    uninstall()
    set_width(width)
    UNPACK.clear()
    from space_packet_parser import common, packets
    from space_packet_parser.xtce import calibrators, comparisons, containers, definitions, encodings, parameter_types, parameters
    lib = Lib()
    need = [(packets, "RawPacketData"), (packets, "_extract_bits"), (packets, "ccsds_generator"), (packets, "CCSDSPacket"),
            (common, "_Parameter"), (common, "IntParameter"), (common, "FloatParameter"), (common, "BoolParameter"),
            (common, "StrParameter"), (common, "BinaryParameter"), (encodings, "NumericDataEncoding"),
            (encodings, "IntegerDataEncoding"), (encodings, "FloatDataEncoding"), (encodings, "struct")]
    for mod, attr in need:
        if not hasattr(mod, attr):
            raise EngineLimit(f"patched name missing after a refactor: {mod.__name__}.{attr}")
    real_raw = packets.RawPacketData
    lib.RealRawPacketData = real_raw
    SymRaw = rehost_class(real_raw, SymBytes)
    _set(packets, "RawPacketData", SymRaw)
    warn = WarnShim()
    for mod in (packets, encodings, comparisons, calibrators, parameter_types, definitions, containers, parameters):
        _set(mod, "int", IntShim)
        _set(mod, "float", FloatShim)
        _set(mod, "bytes", BytesShim)
        if hasattr(mod, "warnings"):
            _set(mod, "warnings", warn)
    for mod in (packets, encodings, comparisons, calibrators, parameter_types, definitions, containers, parameters, common):
        _set(mod, "struct", StructShim)
        rehost_struct_objects(mod, _set)
    P = common._Parameter
    lib.real_classes = {n: getattr(common, n) for n in ("IntParameter", "BoolParameter", "FloatParameter", "StrParameter", "BinaryParameter")}
    bases = dict(IntParameter=SymInt, BoolParameter=SymInt, FloatParameter=SymReal, StrParameter=SymStr, BinaryParameter=SymBytes)
    for n, base in bases.items():
        real = lib.real_classes[n]
        ns = {k: v for k, v in real.__dict__.items() if k not in ("__dict__", "__weakref__", "__module__", "__doc__")}
        # the value class keeps its own body (BoolParameter.__repr__) and the real _Parameter.__new__; only the
        # C-level base (int / float / str / bytes) is swapped for the proxy
        _set(common, n, rebind_super(type(n, (P, base), ns), real))
    _set(encodings.NumericDataEncoding, "_data_return_class", common.FloatParameter)
    _set(encodings.FloatDataEncoding, "_data_return_class", common.FloatParameter)
    _set(encodings.IntegerDataEncoding, "_data_return_class", common.IntParameter)
    lib.RawPacketData = SymRaw
    lib.packets, lib.common, lib.encodings, lib.comparisons = packets, common, encodings, comparisons
    lib.calibrators, lib.parameter_types, lib.definitions, lib.containers = calibrators, parameter_types, definitions, containers
    lib.parameters = parameters
    return lib


def symbolize_definition(defn):
    """Harness-side: wrap enumeration dicts so that lookups by a symbolic key fork per label instead of per value."""
    for pt in defn.parameter_types.values():
        if hasattr(pt, "enumeration") and not isinstance(pt.enumeration, SymDict):
            pt.enumeration = SymDict(pt.enumeration)
    return defn


class SymFileBV(io.BufferedIOBase):
    """a binary file object over symbolic bytes (whole content known, reads return SymBytes slices)"""

    def __init__(self, content):
        self._items = list(content.items)
        self._pos = 0

    def readable(self):
        return True

    def seekable(self):
        return True

    def seek(self, off, whence=0):
        n = builtins.len(self._items)
        self._pos = off if whence == 0 else self._pos + off if whence == 1 else n + off
        return self._pos

    def tell(self):
        return self._pos

    def read(self, n=-1):
        if n is None or (isinstance(n, builtins.int) and n < 0):
            n = builtins.len(self._items) - self._pos
        if not isinstance(n, builtins.int):
            n = n.__index__()
        out = self._items[self._pos:self._pos + n]
        self._pos += builtins.len(out)
        return SymBytes(out) if out else b""


# ------------------------------------------------------------------------------------------------ harness helpers
def fresh_bytes(name, n):
    return SymBytes([z3.BitVec(f"{name}_{i}", 8) for i in range(n)])


def model_bytes(model, items):
    out = bytearray()
    for x in items:
        if isinstance(x, builtins.int):
            out.append(x)
        else:
            out.append(model.eval(x, model_completion=True).as_long())
    return builtins.bytes(out)


def model_int(model, t):
    if isinstance(t, SymInt):
        t = t.t
    if isinstance(t, builtins.int):
        return t
    v = model.eval(t, model_completion=True)
    if z3.is_bv_value(v):
        return v.as_signed_long()
    return v.as_long()


def model_real(model, t):
    if isinstance(t, SymReal):
        t = t.t
    if isinstance(t, (builtins.int, builtins.float)):
        return Fraction(t)
    v = model.eval(t, model_completion=True)
    if z3.is_algebraic_value(v):
        v = v.approx(30)
    return Fraction(v.numerator_as_long(), v.denominator_as_long())
